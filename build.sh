#!/bin/bash
# Builds /verif/bin/sim (and bin/sim.race when asked) from /verif/sim against /repo's working tree. Offline.
# VERIF_REPO=<dir> builds against another checkout of onflow/cadence instead (scratch worktrees for seeded changes, snapshots for
# background runs); the binaries then go to $VERIF_BIN (default: bin.alt/<hash of dir>) so that bin/ always belongs to /repo.
set -u
cd "$(dirname "$0")"
export GOFLAGS=-mod=mod GOPROXY=off
unset GOTOOLCHAIN GOSUMDB 2>/dev/null || true
REPO="${VERIF_REPO:-/repo}"
BIN="bin"; MODFLAG=""
if [ "$REPO" != "/repo" ]; then
  H=$(echo -n "$REPO" | md5sum | cut -c1-10)
  BIN="${VERIF_BIN:-bin.alt/$H}"
  mkdir -p "$BIN"
  sed "s|=> /repo|=> $REPO|" sim/go.mod > "$BIN/go.mod"; cp -f "$REPO/go.sum" "$BIN/go.sum"
  MODFLAG="-modfile=$(cd "$BIN" && pwd)/go.mod"
else
  cp -f /repo/go.sum sim/go.sum 2>/dev/null
fi
mkdir -p "$BIN"
OUT="$(cd "$BIN" && pwd)"
( cd sim && flock /tmp/.verif-build.lock go build $MODFLAG -tags verif -o "$OUT/sim" . ) || exit 1
if [ "${1:-}" = "race" ]; then
  ( cd sim && flock /tmp/.verif-build.lock go build $MODFLAG -race -tags verif -o "$OUT/sim.race" . ) || exit 1
fi
exit 0
