#!/bin/bash
# Builds /verif/bin/sim (and bin/sim.race when asked) from /verif/sim against /repo's working tree. Offline.
set -u
cd "$(dirname "$0")"
export GOFLAGS=-mod=mod GOPROXY=off
unset GOTOOLCHAIN GOSUMDB 2>/dev/null || true
mkdir -p bin
cp -f /repo/go.sum sim/go.sum 2>/dev/null
( cd sim && flock /tmp/.verif-build.lock go build -tags verif -o ../bin/sim . ) || exit 1
if [ "${1:-}" = "race" ]; then
  ( cd sim && flock /tmp/.verif-build.lock go build -race -tags verif -o ../bin/sim.race . ) || exit 1
fi
exit 0
