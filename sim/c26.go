package main

// C26 under host faults: enumeration of a fault at every callback inside a tryUpdate call.
// "A failed tryUpdate changes nothing": whatever made it fail, a result that says "failed" must leave the code as it was.

import (
	"encoding/json"
	"fmt"
	"path/filepath"
	"strings"
)

func tryUpdateItem() CorpusItem {
	return CorpusItem{Name: "tryUpdate-valid-update", Prelude: []ExecReq{tx(DeployTx("Up", upV1), 2)},
		Target: tx(`import World from 0x1
			transaction { prepare(s1: `+fullAuth+`, s2: `+fullAuth+`) {
				World.mark("TRY-BEGIN")
				let r = s2.contracts.tryUpdate(name: "Up", code: `+hexLit(upV2)+`)
				World.mark("TRY-END")
				log(r.deployedContract?.name)
				log(s2.contracts.get(name: "Up")?.code?.length)
				World.end()
			} }`, 1, 2)}
}

func tryUpdateFaulted(it *CorpusItem, base *World, engine string, faults []FaultSpec) []Violation {
	n, t := it.execItem(base, engine, faults)
	_ = n
	if len(t.Fired) == 0 || t.Class != "ok" || len(t.Logs) < 2 {
		return nil
	}
	var vs []Violation
	site := t.Trace[t.FiredSeq].Kind
	if t.Logs[0] == "nil" {
		// reported as failed: nothing may have changed
		if len(t.CodeUpdates) > 0 || t.Logs[1] != fmt.Sprint(len(upV1)) {
			vs = append(vs, Violation{Property: "C26", Oracle: "tryUpdate.failed-changes-nothing", Node: engine, Engine: engine,
				Key:    "tryUpdate-failed-but-code-updated:" + site,
				Detail: fmt.Sprintf("engine %s, fault %v: tryUpdate reported failure, yet the host received %v and contracts.get reports code length %s (old code: %d, new code: %d)", engine, t.Fired, t.CodeUpdates, t.Logs[1], len(upV1), len(upV2))})
		}
	} else if !strings.Contains(t.Logs[0], "Up") {
		vs = append(vs, Violation{Property: "C26", Oracle: "tryUpdate.result", Node: engine, Engine: engine, Key: "tryUpdate-result:" + site, Detail: "unexpected tryUpdate result " + t.Logs[0]})
	}
	return vs
}

func c26Worker(w *WorkerCtx) {
	if w.Index == 0 {
		known := loadKnown()
		it := tryUpdateItem()
		base := it.baseWorld()
		for _, engine := range []string{"interp", "vm"} {
			_, clean := it.execItem(base, engine, nil)
			res := WorkResult{Kind: "item", Seed: 0, Stats: NewRunStats(), Shape: "tryUpdate-enum/" + engine, NonTrivial: true, Extra: map[string]int{}}
			var first *Violation
			var firstFaults []FaultSpec
			for k := range clean.Trace {
				if clean.RegionAt(k) != "TRY" {
					continue
				}
				for _, mode := range []string{"error", "panic", "panicstr"} {
					faults := []FaultSpec{{Site: "*", Nth: k, Mode: mode}}
					res.Stats.Execs++
					res.Extra["tryUpdate_fault_sites"]++
					for _, v := range tryUpdateFaulted(&it, base, engine, faults) {
						isKnown := false
						for _, kf := range known {
							if kf.Matches(v, engine) {
								isKnown = true
							}
						}
						if isKnown {
							res.Violations = append(res.Violations, v)
						} else if first == nil {
							vc := v
							first, firstFaults = &vc, faults
						}
					}
				}
			}
			res.Sample, _ = json.Marshal(map[string]any{"item": it.Name, "engine": engine, "faults_in_TRY_region": res.Extra["tryUpdate_fault_sites"]})
			if first != nil {
				cu, _ := json.Marshal(c28Custom{Item: it, Engine: engine, Faults: firstFaults})
				rf := &ReplayFile{Property: "C26", Oracle: first.Oracle, VerifSeed: int64(w.Seed), Tier: w.Tier, Minimised: true, Kind: "c26try", Custom: cu, Violation: first}
				res.Replay = WriteReplay(filepath.Join(outDir(), "replay"), rf, "tryUpdate-"+engine)
				res.Violations = append([]Violation{*first}, res.Violations...)
			}
			w.Emit(res)
		}
	}
	planWorker(w)
}

func init() {
	customReplays["c26try"] = func(rf *ReplayFile) []Violation {
		var cu c28Custom
		if err := json.Unmarshal(rf.Custom, &cu); err != nil {
			panic("harness: bad c26 replay: " + err.Error())
		}
		it := tryUpdateItem()
		return tryUpdateFaulted(&it, it.baseWorld(), cu.Engine, cu.Faults)
	}
}
