package main

// C27: accepted contract updates keep existing stored data usable.
// History: deploy a generated contract v1, store instances, apply a mutation from a fixed mutation grammar via
// contracts.update / tryUpdate; if (and only if) the update is accepted, a probe script generated from the NEW declaration
// must load every stored value, read every declared field with its declared type, find enum values meaning what they meant
// and every old interface conformance still holding - after a restart, on both engines. The oracle has no opinion on
// whether an update should be accepted.

import (
	"encoding/json"
	"fmt"
	"os"
	"path/filepath"
	"regexp"
	"strings"
	"time"
)

type upField struct {
	Name, Type, Access string
	Let                bool
}

type upSpec struct {
	DKind      string // "struct" | "resource"
	DFields    []upField
	DConforms  []string
	NFields    []upField
	HasN       bool
	Cases      []string
	EnumRaw    string
	QFields    []upField
	QConforms  []string
	IFuncs     []string // function declarations of interface I
	Extra      []string // extra nested declarations
	Pragmas    []string
}

func upV1Spec() upSpec {
	return upSpec{
		DKind: "struct",
		DFields: []upField{{"n", "Int", "access(all)", false}, {"s", "String", "access(all)", false}, {"xs", "[Int]", "access(all)", false},
			{"inner", "N", "access(all)", false}, {"k", "K", "access(all)", false}, {"opt", "Int?", "access(all)", false},
			{"both", "{I, J}", "access(all)", false}, {"boths", "[{I, J}]", "access(all)", false}},
		DConforms: []string{"I", "J"},
		NFields:   []upField{{"v", "Int", "access(all)", false}},
		HasN:      true,
		Cases:     []string{"a", "b", "c"},
		EnumRaw:   "UInt8",
		QFields:   []upField{{"m", "Int", "access(all)", false}, {"d", "D", "access(all)", false}},
		QConforms: []string{"RI"},
		IFuncs:    []string{"access(all) fun id(): Int"},
	}
}

func (s upSpec) clone() upSpec {
	c := s
	c.DFields = append([]upField{}, s.DFields...)
	c.DConforms = append([]string{}, s.DConforms...)
	c.NFields = append([]upField{}, s.NFields...)
	c.Cases = append([]string{}, s.Cases...)
	c.QFields = append([]upField{}, s.QFields...)
	c.QConforms = append([]string{}, s.QConforms...)
	c.IFuncs = append([]string{}, s.IFuncs...)
	c.Extra = append([]string{}, s.Extra...)
	c.Pragmas = append([]string{}, s.Pragmas...)
	return c
}

func defaultOf(t string) string {
	switch {
	case strings.HasSuffix(t, "?"):
		return "nil"
	case t == "Int":
		return "0"
	case t == "String":
		return `""`
	case t == "Bool":
		return "false"
	case strings.HasPrefix(t, "["):
		return "[]"
	case strings.HasPrefix(t, "{"):
		return "{}"
	case t == "N":
		return "N(0)"
	case t == "K":
		return "K(rawValue: 0)!"
	case t == "D":
		return "D(0)"
	}
	return "0"
}

func renderFields(fs []upField) string {
	var sb strings.Builder
	for _, f := range fs {
		kw := "var"
		if f.Let {
			kw = "let"
		}
		fmt.Fprintf(&sb, "        %s %s %s: %s\n", f.Access, kw, f.Name, f.Type)
	}
	return sb.String()
}

// Source renders the contract. Initialisers give every field a value derived from the single Int argument.
func (s upSpec) Source() string { return s.source(false) }

// source renders the contract; with initStore its initializer stores the instances (what the separate store transaction does
// otherwise) into the storage of the account it is deployed to.
func (s upSpec) source(initStore bool) string {
	var sb strings.Builder
	for _, p := range s.Pragmas {
		sb.WriteString(p + "\n")
	}
	sb.WriteString("access(all) contract Upg {\n")
	for _, p := range s.Pragmas {
		_ = p
	}
	sb.WriteString("    access(all) struct interface I {\n")
	for _, f := range s.IFuncs {
		sb.WriteString("        " + f + "\n")
	}
	sb.WriteString("    }\n    access(all) struct interface J {}\n    access(all) resource interface RI {}\n")
	fmt.Fprintf(&sb, "    access(all) enum K: %s {\n", s.EnumRaw)
	for _, c := range s.Cases {
		fmt.Fprintf(&sb, "        access(all) case %s\n", c)
	}
	sb.WriteString("    }\n")
	if s.HasN {
		sb.WriteString("    access(all) struct N {\n" + renderFields(s.NFields) + "        init(_ v: Int) {\n")
		for _, f := range s.NFields {
			if f.Name == "v" && f.Type == "Int" {
				sb.WriteString("            self.v = v\n")
			} else {
				fmt.Fprintf(&sb, "            self.%s = %s\n", f.Name, defaultOf(f.Type))
			}
		}
		sb.WriteString("        }\n    }\n")
	}
	sb.WriteString("    access(all) struct M: I, J {\n        access(all) fun id(): Int { return 3 }\n        init() {}\n    }\n")
	conf := ""
	if len(s.DConforms) > 0 {
		conf = ": " + strings.Join(s.DConforms, ", ")
	}
	fmt.Fprintf(&sb, "    access(all) %s D%s {\n%s", s.DKind, conf, renderFields(s.DFields))
	sb.WriteString("        access(all) fun id(): Int { return 7 }\n        init(_ n: Int) {\n")
	for _, f := range s.DFields {
		switch {
		case f.Name == "n" && f.Type == "Int":
			sb.WriteString("            self.n = n\n")
		case f.Name == "s" && f.Type == "String":
			sb.WriteString("            self.s = n.toString()\n")
		case f.Name == "xs" && f.Type == "[Int]":
			sb.WriteString("            self.xs = [n, n + 1]\n")
		case f.Name == "inner" && f.Type == "N":
			sb.WriteString("            self.inner = N(n * 2)\n")
		case f.Name == "k" && f.Type == "K":
			fmt.Fprintf(&sb, "            self.k = K(rawValue: %s(n %% 3))!\n", s.EnumRaw)
		case f.Name == "opt" && f.Type == "Int?":
			sb.WriteString("            self.opt = n % 2 == 0 ? n : nil\n")
		case f.Name == "both" && f.Type == "{I, J}":
			sb.WriteString("            self.both = M()\n")
		case f.Name == "boths" && f.Type == "[{I, J}]":
			sb.WriteString("            self.boths = [M(), M()]\n")
		case f.Name == "both" || f.Name == "boths":
			// a retyped intersection field: the initializer is irrelevant for stored data, it only has to type check
			if strings.HasPrefix(f.Type, "[") {
				fmt.Fprintf(&sb, "            self.%s = []\n", f.Name)
			} else {
				fmt.Fprintf(&sb, "            self.%s = M2()\n", f.Name)
			}
		default:
			fmt.Fprintf(&sb, "            self.%s = %s\n", f.Name, defaultOf(f.Type))
		}
	}
	sb.WriteString("        }\n    }\n")
	qconf := ""
	if len(s.QConforms) > 0 {
		qconf = ": " + strings.Join(s.QConforms, ", ")
	}
	if s.DKind == "struct" {
		fmt.Fprintf(&sb, "    access(all) resource Q%s {\n%s        init(_ m: Int) {\n", qconf, renderFields(s.QFields))
		for _, f := range s.QFields {
			switch {
			case f.Name == "m" && f.Type == "Int":
				sb.WriteString("            self.m = m\n")
			case f.Name == "d" && f.Type == "D":
				sb.WriteString("            self.d = D(m + 100)\n")
			default:
				fmt.Fprintf(&sb, "            self.%s = %s\n", f.Name, defaultOf(f.Type))
			}
		}
		sb.WriteString("        }\n    }\n    access(all) fun makeQ(_ m: Int): @Q { return <- create Q(m) }\n")
		sb.WriteString("    access(all) fun makeD(_ n: Int): D { return D(n) }\n")
	}
	for _, e := range s.Extra {
		sb.WriteString("    " + e + "\n")
	}
	if initStore && s.DKind == "struct" {
		sb.WriteString(`    init() {
        let st = self.account.storage
        st.save(self.makeD(1), to: /storage/d1)
        st.save(self.makeD(2), to: /storage/d2)
        st.save([self.makeD(3), self.makeD(4)], to: /storage/ds)
        st.save({"x": self.makeD(5)}, to: /storage/dd)
        st.save(<- self.makeQ(6), to: /storage/q)
        st.save(K.b, to: /storage/k)
        st.save([self.makeD(8) as {I}], to: /storage/is)
        st.save(self.makeD(9), to: /storage/d9)
        st.save(N(77), to: /storage/n77)
        st.save([N(78)], to: /storage/ns)
    }
}
`)
		return sb.String()
	}
	sb.WriteString("    init() {}\n}\n")
	return sb.String()
}

type upMutation struct {
	Name  string
	Apply func(s *upSpec)
}

func upMutations() []upMutation {
	rm := func(fs []upField, name string) []upField {
		var out []upField
		for _, f := range fs {
			if f.Name != name {
				out = append(out, f)
			}
		}
		return out
	}
	retype := func(fs []upField, name, t string) []upField {
		out := append([]upField{}, fs...)
		for i := range out {
			if out[i].Name == name {
				out[i].Type = t
			}
		}
		return out
	}
	rmStr := func(xs []string, x string) []string {
		var out []string
		for _, y := range xs {
			if y != x {
				out = append(out, y)
			}
		}
		return out
	}
	return []upMutation{
		{"identity", func(s *upSpec) {}},
		{"D.add-field-Int", func(s *upSpec) { s.DFields = append(s.DFields, upField{"extra", "Int", "access(all)", false}) }},
		{"D.add-field-optional", func(s *upSpec) { s.DFields = append(s.DFields, upField{"extra", "Int?", "access(all)", false}) }},
		{"D.add-field-first", func(s *upSpec) { s.DFields = append([]upField{{"extra", "String", "access(all)", false}}, s.DFields...) }},
		{"D.remove-field-s", func(s *upSpec) { s.DFields = rm(s.DFields, "s") }},
		{"D.remove-field-inner", func(s *upSpec) { s.DFields = rm(s.DFields, "inner") }},
		{"D.retype-n-String", func(s *upSpec) { s.DFields = retype(s.DFields, "n", "String") }},
		{"D.retype-n-Int64", func(s *upSpec) { s.DFields = retype(s.DFields, "n", "Int64") }},
		{"D.retype-xs-[String]", func(s *upSpec) { s.DFields = retype(s.DFields, "xs", "[String]") }},
		{"D.retype-opt-Int", func(s *upSpec) { s.DFields = retype(s.DFields, "opt", "Int") }},
		{"D.retype-n-optional", func(s *upSpec) { s.DFields = retype(s.DFields, "n", "Int?") }},
		{"D.retype-inner-D?", func(s *upSpec) { s.DFields = retype(s.DFields, "inner", "N?") }},
		{"D.retype-k-UInt8", func(s *upSpec) { s.DFields = retype(s.DFields, "k", "UInt8") }},
		{"D.retype-xs-AnyStruct", func(s *upSpec) { s.DFields = retype(s.DFields, "xs", "[AnyStruct]") }},
		{"D.retype-both-{I,L}", func(s *upSpec) {
			s.DFields = retype(s.DFields, "both", "{I, L}")
			s.Extra = append(s.Extra, "access(all) struct interface L {}", "access(all) struct M2: I, L { access(all) fun id(): Int { return 4 }; init() {} }")
		}},
		{"D.retype-both-{L,J}", func(s *upSpec) {
			s.DFields = retype(s.DFields, "both", "{L, J}")
			s.Extra = append(s.Extra, "access(all) struct interface L {}", "access(all) struct M2: L, J { init() {} }")
		}},
		{"D.retype-both-{J,I}", func(s *upSpec) {
			s.DFields = retype(s.DFields, "both", "{J, I}")
			s.Extra = append(s.Extra, "access(all) struct M2: I, J { access(all) fun id(): Int { return 4 }; init() {} }")
		}},
		{"D.retype-both-{I}", func(s *upSpec) {
			s.DFields = retype(s.DFields, "both", "{I}")
			s.Extra = append(s.Extra, "access(all) struct M2: I { access(all) fun id(): Int { return 4 }; init() {} }")
		}},
		{"D.retype-boths-[{I,L}]", func(s *upSpec) {
			s.DFields = retype(s.DFields, "boths", "[{I, L}]")
			s.Extra = append(s.Extra, "access(all) struct interface L {}")
		}},
		{"D.retype-boths-[{J,I,L}]", func(s *upSpec) {
			s.DFields = retype(s.DFields, "boths", "[{J, I, L}]")
			s.Extra = append(s.Extra, "access(all) struct interface L {}")
		}},
		{"D.reorder-fields", func(s *upSpec) {
			n := len(s.DFields)
			out := make([]upField, n)
			for i, f := range s.DFields {
				out[n-1-i] = f
			}
			s.DFields = out
		}},
		{"D.rename-field", func(s *upSpec) {
			for i := range s.DFields {
				if s.DFields[i].Name == "s" {
					s.DFields[i].Name = "str"
				}
			}
		}},
		{"D.swap-field-names", func(s *upSpec) {
			// n: Int and opt: Int? keep their types but s/“n” trade places with another Int field: rename n <-> a new Int field is a type-preserving swap
			for i := range s.DFields {
				switch s.DFields[i].Name {
				case "n":
					s.DFields[i].Name = "s"
				case "s":
					s.DFields[i].Name = "n"
				}
			}
		}},
		{"D.access-change", func(s *upSpec) {
			for i := range s.DFields {
				if s.DFields[i].Name == "s" {
					s.DFields[i].Access = "access(self)"
				}
			}
		}},
		{"D.var-to-let", func(s *upSpec) { s.DFields[0].Let = true }},
		{"D.remove-conformance-J", func(s *upSpec) { s.DConforms = rmStr(s.DConforms, "J") }},
		{"D.remove-conformance-I", func(s *upSpec) { s.DConforms = rmStr(s.DConforms, "I") }},
		{"D.add-conformance", func(s *upSpec) {
			s.Extra = append(s.Extra, "access(all) struct interface L {}")
			s.DConforms = append(s.DConforms, "L")
		}},
		{"D.kind-struct-to-resource", func(s *upSpec) { s.DKind = "resource" }},
		{"N.remove-declaration", func(s *upSpec) { s.HasN = false; s.DFields = rm(s.DFields, "inner") }},
		{"N.remove-declaration-with-pragma", func(s *upSpec) {
			s.HasN = false
			s.DFields = rm(s.DFields, "inner")
			s.Extra = append(s.Extra, "#removedType(N)")
		}},
		// meant as a second step after N was removed with the pragma: the name comes back with another field type
		{"N.redeclare-retyped", func(s *upSpec) {
			s.HasN = true
			s.NFields = retype(s.NFields, "v", "String")
		}},
		{"N.redeclare-same", func(s *upSpec) { s.HasN = true }},
		{"N.redeclare-extra-field", func(s *upSpec) {
			s.HasN = true
			s.NFields = append([]upField{{"u", "String", "access(all)", false}}, s.NFields...)
		}},
		{"N.add-field", func(s *upSpec) { s.NFields = append(s.NFields, upField{"w", "Int", "access(all)", false}) }},
		{"N.retype-v", func(s *upSpec) { s.NFields = retype(s.NFields, "v", "UInt8") }},
		{"K.add-case-end", func(s *upSpec) { s.Cases = append(s.Cases, "d") }},
		{"K.add-case-front", func(s *upSpec) { s.Cases = append([]string{"z"}, s.Cases...) }},
		{"K.add-case-middle", func(s *upSpec) { s.Cases = []string{"a", "ab", "b", "c"} }},
		{"K.remove-case-last", func(s *upSpec) { s.Cases = []string{"a", "b"} }},
		{"K.remove-case-middle", func(s *upSpec) { s.Cases = []string{"a", "c"} }},
		{"K.reorder-cases", func(s *upSpec) { s.Cases = []string{"a", "c", "b"} }},
		{"K.rename-case", func(s *upSpec) { s.Cases = []string{"a", "bee", "c"} }},
		{"K.raw-type", func(s *upSpec) { s.EnumRaw = "UInt16" }},
		{"Q.add-field", func(s *upSpec) { s.QFields = append(s.QFields, upField{"extra", "Int", "access(all)", false}) }},
		{"Q.retype-d", func(s *upSpec) { s.QFields = retype(s.QFields, "d", "N") }},
		{"Q.remove-field-d", func(s *upSpec) { s.QFields = rm(s.QFields, "d") }},
		{"Q.remove-conformance", func(s *upSpec) { s.QConforms = nil }},
		{"Q.retype-m", func(s *upSpec) { s.QFields = retype(s.QFields, "m", "UInt64") }},
		{"I.add-function-without-default", func(s *upSpec) { s.IFuncs = append(s.IFuncs, "access(all) fun other(): Int") }},
		{"I.add-function-with-default", func(s *upSpec) { s.IFuncs = append(s.IFuncs, "access(all) fun other(): Int { return 1 }") }},
		{"add-unrelated-declarations", func(s *upSpec) {
			s.Extra = append(s.Extra, "access(all) struct Z { access(all) var z: Int; init() { self.z = 1 } }", "access(all) fun extra(): Int { return 5 }")
		}},
	}
}

const upStoreTx = `import Upg from 0x2
transaction { prepare(s1: ` + fullAuth + `, s2: ` + fullAuth + `) {
    s1.storage.save(Upg.makeD(1), to: /storage/d1)
    s1.storage.save(Upg.makeD(2), to: /storage/d2)
    s1.storage.save([Upg.makeD(3), Upg.makeD(4)], to: /storage/ds)
    s1.storage.save({"x": Upg.makeD(5)}, to: /storage/dd)
    s1.storage.save(<- Upg.makeQ(6), to: /storage/q)
    s1.storage.save(Upg.K.b, to: /storage/k)
    s1.storage.save([Upg.makeD(8) as {Upg.I}], to: /storage/is)
    s2.storage.save(Upg.makeD(9), to: /storage/d9)
    s2.storage.save(Upg.N(77), to: /storage/n77)
    s2.storage.save([Upg.N(78)], to: /storage/ns)
} }`

// probe renders the probe script from the NEW declaration and the expected result computed from what was stored under v1.
func (s upSpec) probe(v1 upSpec) (string, []string) { return s.probeAt(v1, 1) }

// probeAt: acctA is the account holding the values that the store transaction puts into the first signer's storage
func (s upSpec) probeAt(v1 upSpec, acctA int) (string, []string) {
	var sb strings.Builder
	var exp []string
	fmt.Fprintf(&sb, "import Upg from 0x2\naccess(all) fun main(): [AnyStruct] {\n    let out: [AnyStruct] = []\n    let a = getAuthAccount<auth(Storage) &Account>(0x%d)\n    let b = getAuthAccount<auth(Storage) &Account>(0x2)\n", acctA)
	expD := func(n int) {
		for _, f := range s.DFields {
			switch {
			case f.Name == "n":
				exp = append(exp, fmt.Sprintf("Int(%d)", n))
			case f.Name == "s":
				exp = append(exp, fmt.Sprintf("%q", fmt.Sprint(n)))
			case f.Name == "xs":
				exp = append(exp, fmt.Sprintf("[Int(%d), Int(%d)]", n, n+1))
			case f.Name == "inner":
				exp = append(exp, fmt.Sprintf("Int(%d)", n*2))
			case f.Name == "k":
				exp = append(exp, fmt.Sprintf("UInt8(%d)", n%3), "true")
			case f.Name == "opt":
				if n%2 == 0 {
					exp = append(exp, fmt.Sprintf("?(Int(%d))", n))
				} else {
					exp = append(exp, "nil")
				}
			case f.Name == "both":
				exp = append(exp, "Int(3)")
			case f.Name == "boths":
				exp = append(exp, "Int(2)")
			default:
				exp = append(exp, "<any>")
			}
		}
		for _, c := range v1.DConforms {
			_ = c
			exp = append(exp, "true")
		}
	}
	// D values are read through copies (struct) so that `*ref` is not needed
	dPaths := []struct {
		acct, path string
		n          int
	}{{"a", "d1", 1}, {"a", "d2", 2}, {"b", "d9", 9}}
	for _, p := range dPaths {
		v := "v_" + p.path
		fmt.Fprintf(&sb, "    let %s = %s.storage.copy<Upg.D>(from: /storage/%s)!\n", v, p.acct, p.path)
		s.readValue(&sb, v, p.n, v1)
		expD(p.n)
	}
	sb.WriteString("    let ds = a.storage.copy<[Upg.D]>(from: /storage/ds)!\n    let v_ds0 = ds[0]\n    let v_ds1 = ds[1]\n")
	s.readValue(&sb, "v_ds0", 3, v1)
	expD(3)
	s.readValue(&sb, "v_ds1", 4, v1)
	expD(4)
	sb.WriteString("    let dd = a.storage.copy<{String: Upg.D}>(from: /storage/dd)!\n    let v_dd = dd[\"x\"]!\n")
	s.readValue(&sb, "v_dd", 5, v1)
	expD(5)
	// the resource and its struct field
	sb.WriteString("    let q = a.storage.borrow<&Upg.Q>(from: /storage/q)!\n")
	for _, f := range s.QFields {
		switch {
		case f.Name == "m":
			fmt.Fprintf(&sb, "    let qm: %s = q.m\n    out.append(qm)\n", qualify(f.Type))
			exp = append(exp, "Int(6)")
		case f.Name == "d" && f.Type == "D":
			// a struct field read through a reference is a reference: read one of its fields
			hasN := false
			for _, df := range s.DFields {
				if df.Name == "n" && df.Type == "Int" && df.Access == "access(all)" {
					hasN = true
				}
			}
			if hasN {
				sb.WriteString("    let qdn: Int = q.d.n\n    out.append(qdn)\n")
				exp = append(exp, "Int(106)")
			}
		default:
			fmt.Fprintf(&sb, "    let q_%s: %s = q.%s\n    out.append(q_%s)\n", f.Name, qualify(f.Type), f.Name, f.Name)
			exp = append(exp, "<any>")
		}
	}
	for _, c := range v1.QConforms {
		fmt.Fprintf(&sb, "    out.append(a.storage.borrow<&{Upg.%s}>(from: /storage/q) != nil)\n", c)
		exp = append(exp, "true")
	}
	// a nested struct stored on its own: if the new version declares N (still, or again), the stored values must read under it
	if s.HasN {
		sb.WriteString("    let n77 = b.storage.copy<Upg.N>(from: /storage/n77)!\n    let ns = b.storage.copy<[Upg.N]>(from: /storage/ns)!\n")
		for _, f := range s.NFields {
			fmt.Fprintf(&sb, "    let n77_%s: %s = n77.%s\n    out.append(n77_%s)\n    let ns_%s: %s = ns[0].%s\n    out.append(ns_%s)\n", f.Name, qualify(f.Type), f.Name, f.Name, f.Name, qualify(f.Type), f.Name, f.Name)
			if f.Name == "v" {
				exp = append(exp, "Int(77)", "Int(78)")
			} else {
				exp = append(exp, "<any>", "<any>")
			}
		}
	}
	// the stored enum value: K.b
	sb.WriteString("    let k = a.storage.copy<Upg.K>(from: /storage/k)!\n    out.append(k.rawValue)\n")
	exp = append(exp, "UInt8(1)")
	hasB := false
	for _, c := range s.Cases {
		if c == "b" {
			hasB = true
		}
	}
	if hasB {
		sb.WriteString("    out.append(k == Upg.K.b)\n")
	} else {
		sb.WriteString("    out.append(false)\n")
	}
	exp = append(exp, "true")
	fmt.Fprintf(&sb, "    out.append(Upg.K(rawValue: 1) == k)\n")
	exp = append(exp, "true")
	// the interface-typed array
	sb.WriteString("    let arr = a.storage.copy<[{Upg.I}]>(from: /storage/is)!\n    out.append(arr[0].id())\n")
	exp = append(exp, "Int(7)")
	sb.WriteString("    return out\n}\n")
	return sb.String(), exp
}

func sanitize(s string) string { return strings.NewReplacer(".", "_", "[", "_", "]", "_", "\"", "", "!", "").Replace(s) }

var qualifyRe = regexp.MustCompile(`\b(I|J|L|N|K|D|M)\b`)

func qualify(t string) string { return qualifyRe.ReplaceAllString(t, "Upg.$1") }

// readValue reads every field the new version declares on D, with its declared type, from the struct variable v.
func (s upSpec) readValue(sb *strings.Builder, v string, n int, v1 upSpec) {
	for _, f := range s.DFields {
		switch {
		case f.Access != "access(all)":
			sb.WriteString("    out.append(\"<inaccessible>\")\n")
		case f.Name == "inner" && strings.TrimSuffix(f.Type, "?") == "N":
			if strings.HasSuffix(f.Type, "?") {
				fmt.Fprintf(sb, "    let %s_inner: Upg.N? = %s.inner\n    out.append(%s_inner!.v)\n", v, v, v)
			} else {
				fmt.Fprintf(sb, "    let %s_inner: Upg.N = %s.inner\n    out.append(%s_inner.v)\n", v, v, v)
			}
		case f.Name == "k" && f.Type == "K":
			oldCase := v1.Cases[n%3]
			fmt.Fprintf(sb, "    let %s_k: Upg.K = %s.k\n    out.append(%s_k.rawValue)\n", v, v, v)
			has := false
			for _, c := range s.Cases {
				if c == oldCase {
					has = true
				}
			}
			if has {
				fmt.Fprintf(sb, "    out.append(%s_k == Upg.K.%s)\n", v, oldCase)
			} else {
				sb.WriteString("    out.append(false)\n")
			}
		case f.Name == "both":
			fmt.Fprintf(sb, "    let %s_both: %s = %s.both\n    out.append(%s_both.id())\n", v, qualify(f.Type), v, v)
		case f.Name == "boths":
			fmt.Fprintf(sb, "    let %s_boths: %s = %s.boths\n    for e in %s_boths { let x: Int = e.id() }\n    out.append(%s_boths.length)\n", v, qualify(f.Type), v, v, v)
		default:
			fmt.Fprintf(sb, "    let %s_%s: %s = %s.%s\n    out.append(%s_%s)\n", v, f.Name, qualify(f.Type), v, f.Name, v, f.Name)
		}
	}
	if s.DKind == "struct" {
		for _, c := range v1.DConforms {
			fmt.Fprintf(sb, "    out.append((%s as AnyStruct) as? {Upg.%s} != nil)\n", v, c)
		}
	}
}

type c27Trial struct {
	Mutation string `json:"mutation"`
	Engine   string `json:"engine"`
	Via      string `json:"via"` // "update" | "tryUpdate"
	Restart  bool   `json:"restart"`
	Second   string `json:"second_mutation,omitempty"`
}

// runC27 executes one trial and returns (accepted, violations).
func runC27(tr c27Trial) (bool, []Violation) {
	var vs []Violation
	viol := func(oracle, key, f string, a ...any) {
		vs = append(vs, Violation{Property: "C27", Oracle: oracle, Node: tr.Engine, Engine: tr.Engine, Key: key + ":" + tr.Mutation + "+" + tr.Second, Detail: fmt.Sprintf("mutation %q then %q via %s on %s (restart=%v): ", tr.Mutation, tr.Second, tr.Via, tr.Engine, tr.Restart) + fmt.Sprintf(f, a...)})
	}
	v1 := upV1Spec()
	n := NewNode(NodeConfig{Name: tr.Engine, Engine: tr.Engine, Cache: "warm", EnvReuse: true}, NewWorld())
	must := func(t *Transcript, what string) {
		if t.Err != nil {
			panic(fmt.Sprintf("harness: C27 %s failed: %v", what, t.Err))
		}
	}
	must(n.Exec(ExecReq{Kind: "tx", Source: DeployTx("World", WorldSrc), Signers: []uint64{1}}, true), "deploy World")
	sameTx := tr.Via == "sameTx"
	if !sameTx {
		must(n.Exec(ExecReq{Kind: "tx", Source: DeployTx("Upg", v1.Source()), Signers: []uint64{2}, Salt: 1}, true), "deploy Upg v1")
		must(n.Exec(ExecReq{Kind: "tx", Source: upStoreTx, Signers: []uint64{1, 2}, Salt: 2}, true), "store instances")
	}
	v2 := v1.clone()
	for _, m := range upMutations() {
		if m.Name == tr.Mutation {
			m.Apply(&v2)
		}
	}
	src2 := v2.source(sameTx)
	var upd string
	if sameTx {
		// the contract is deployed (its initializer stores the instances) and updated by one and the same transaction
		upd = fmt.Sprintf(`transaction { prepare(a: auth(Contracts) &Account) {
    a.contracts.add(name: "Upg", code: "%s".decodeHex())
    a.contracts.update(name: "Upg", code: "%s".decodeHex())
} }`, hexs(v1.source(true)), hexs(src2))
	} else if tr.Via == "tryUpdate" {
		upd = fmt.Sprintf(`transaction { prepare(a: auth(Contracts) &Account) { let r = a.contracts.tryUpdate(name: "Upg", code: "%s".decodeHex()); if r.deployedContract == nil { panic("rejected") } } }`, hexs(src2))
	} else {
		upd = fmt.Sprintf(`transaction { prepare(a: auth(Contracts) &Account) { a.contracts.update(name: "Upg", code: "%s".decodeHex()) } }`, hexs(src2))
	}
	t := n.Exec(ExecReq{Kind: "tx", Source: upd, Signers: []uint64{2}, Salt: 3}, true)
	if t.Class == "internal" || t.Class == "escaped" {
		viol("update.no-internal-error", "update-internal", "the update ended with an internal error: %s", t.ErrMsg)
		return false, vs
	}
	if t.Err != nil {
		return false, vs // rejected: nothing to check
	}
	if tr.Second != "" {
		// a second update on top of the accepted one (e.g. remove a field, then re-add it with another type)
		v3 := v2.clone()
		for _, m := range upMutations() {
			if m.Name == tr.Second {
				m.Apply(&v3)
			}
		}
		upd2 := fmt.Sprintf(`transaction { prepare(a: auth(Contracts) &Account) { a.contracts.update(name: "Upg", code: "%s".decodeHex()) } }`, hexs(v3.Source()))
		t2 := n.Exec(ExecReq{Kind: "tx", Source: upd2, Signers: []uint64{2}, Salt: 33}, true)
		if t2.Class == "internal" || t2.Class == "escaped" {
			viol("update.no-internal-error", "update-internal", "the second update (%s) ended with an internal error: %s", tr.Second, t2.ErrMsg)
			return false, vs
		}
		if t2.Err == nil {
			v2 = v3
		} else if os.Getenv("VERIF_DEBUG") != "" {
			fmt.Println("second update rejected:", clip(t2.Err.Error(), 1200))
		}
	}
	if tr.Restart {
		n.Restart()
	}
	probe, exp := v2.probe(v1)
	if sameTx {
		probe, exp = v2.probeAt(v1, 2)
	}
	if v2.DKind != "struct" {
		return true, vs // a kind change that is accepted is caught by the probe failing to type check below in practice; D as resource cannot be probed with struct reads
	}
	pt := n.Exec(ExecReq{Kind: "script", Source: probe, Salt: 4}, false)
	if pt.Err != nil {
		viol("probe.succeeds", "probe-failed", "the update was ACCEPTED but stored data is no longer usable under the new declaration: %s %s: %s", pt.Class, pt.ErrType, clip(pt.Err.Error(), 600))
		return true, vs
	}
	got := strings.TrimSuffix(strings.TrimPrefix(pt.Result, "["), "]")
	gotParts := splitTop(got)
	if len(gotParts) != len(exp) {
		viol("probe.values", "probe-count", "probe returned %d values, expected %d: %s", len(gotParts), len(exp), clip(pt.Result, 400))
		return true, vs
	}
	for i := range exp {
		if exp[i] == "<any>" || gotParts[i] == `"<inaccessible>"` {
			continue
		}
		if gotParts[i] != exp[i] {
			viol("probe.values", "probe-value", "value #%d read back under the new declaration is %s, stored was %s (probe result %s)", i, gotParts[i], exp[i], clip(pt.Result, 300))
			break
		}
	}
	return true, vs
}

// splitTop splits a canonical array body on top-level ", ".
func splitTop(s string) []string {
	var out []string
	depth, start := 0, 0
	inStr := false
	for i := 0; i < len(s); i++ {
		c := s[i]
		switch {
		case inStr:
			if c == '\\' {
				i++
			} else if c == '"' {
				inStr = false
			}
		case c == '"':
			inStr = true
		case c == '[' || c == '(' || c == '{':
			depth++
		case c == ']' || c == ')' || c == '}':
			depth--
		case c == ',' && depth == 0:
			out = append(out, strings.TrimSpace(s[start:i]))
			start = i + 1
		}
	}
	if strings.TrimSpace(s[start:]) != "" {
		out = append(out, strings.TrimSpace(s[start:]))
	}
	return out
}

func c27Worker(w *WorkerCtx) {
	known := loadKnown()
	muts := upMutations()
	var trials []c27Trial
	for _, m := range muts {
		for _, e := range []string{"interp", "vm"} {
			for _, via := range []string{"update", "tryUpdate"} {
				for _, rs := range []bool{true, false} {
					trials = append(trials, c27Trial{Mutation: m.Name, Engine: e, Via: via, Restart: rs})
				}
			}
		}
	}
	// two-step sequences: an accepted first mutation followed by any second one (thorough: all pairs; quick: a seeded sample)
	firsts := []string{"D.remove-field-s", "D.remove-field-inner", "D.reorder-fields", "D.access-change", "D.add-conformance", "N.remove-declaration-with-pragma", "K.add-case-end", "Q.remove-field-d", "I.add-function-with-default", "add-unrelated-declarations"}
	rng := NewRng(w.Seed / 7919) // the same sample in every worker of one check run
	for _, f := range firsts {
		for _, m := range muts {
			if w.Tier != "thorough" && !rng.Chance(0.12) {
				continue
			}
			for _, e := range []string{"interp", "vm"} {
				trials = append(trials, c27Trial{Mutation: f, Second: m.Name, Engine: e, Via: "update", Restart: true})
			}
		}
	}
	// the contract is deployed and updated by the same transaction (quick: the mutations that are refused most often)
	for _, m := range muts {
		for _, e := range []string{"interp", "vm"} {
			trials = append(trials, c27Trial{Mutation: m.Name, Engine: e, Via: "sameTx", Restart: true})
		}
	}
	// histories that are always run: a type removed with #removedType comes back in the next version
	for _, e := range []string{"interp", "vm"} {
		for _, second := range []string{"N.redeclare-retyped", "N.redeclare-same", "N.redeclare-extra-field", "N.retype-v"} {
			for _, rs := range []bool{true, false} {
				trials = append(trials, c27Trial{Mutation: "N.remove-declaration-with-pragma", Second: second, Engine: e, Via: "update", Restart: rs})
			}
		}
	}
	nw := numCPU()
	for i, tr := range trials {
		if i%nw != w.Index%nw {
			continue
		}
		if !w.TimeLeft() && w.Tier == "quick" && i > 4*nw {
			// quick: at least every mutation once per engine; the remaining combinations as time permits
		}
		start := time.Now()
		accepted, vs := runC27(tr)
		res := WorkResult{Kind: "item", Seed: uint64(i), Stats: NewRunStats(), Shape: fmt.Sprintf("%s+%s/%s/%s/%v", tr.Mutation, tr.Second, tr.Engine, tr.Via, tr.Restart), NonTrivial: true, Extra: map[string]int{}}
		res.Stats.Execs = 5
		if accepted {
			res.Extra["updates_accepted"]++
			res.Extra["accepted:"+tr.Mutation]++
		} else {
			res.Extra["updates_rejected"]++
		}
		_ = start
		if i < nw {
			res.Sample, _ = json.Marshal(map[string]any{"trial": tr, "accepted": accepted})
		}
		for _, v := range vs {
			isKnown := false
			for _, kf := range known {
				if kf.Matches(v, tr.Engine) {
					isKnown = true
				}
			}
			res.Violations = append(res.Violations, v)
			if !isKnown && res.Replay == "" {
				cu, _ := json.Marshal(tr)
				vc := v
				rf := &ReplayFile{Property: "C27", Oracle: v.Oracle, VerifSeed: int64(w.Seed), Tier: w.Tier, Minimised: true, Kind: "c27", Custom: cu, Violation: &vc}
				res.Replay = WriteReplay(filepath.Join(outDir(), "replay"), rf, sanitize(fmt.Sprintf("%s-%s-%s", tr.Mutation, tr.Engine, tr.Via)))
				res.Violations[0], res.Violations[len(res.Violations)-1] = res.Violations[len(res.Violations)-1], res.Violations[0]
			}
		}
		w.Emit(res)
	}
}

func init() {
	customReplays["c27"] = func(rf *ReplayFile) []Violation {
		var tr c27Trial
		if err := json.Unmarshal(rf.Custom, &tr); err != nil {
			panic("harness: bad c27 replay: " + err.Error())
		}
		_, vs := runC27(tr)
		return vs
	}
}

func devC27() {
	if len(os.Args) > 4 {
		// sim c27 <first> <second> <engine>
		acc, vs := runC27(c27Trial{Mutation: os.Args[2], Second: os.Args[3], Engine: os.Args[4], Via: "update", Restart: true})
		fmt.Println("accepted", acc)
		for _, v := range vs {
			fmt.Println(clip(v.String(), 1500))
		}
		return
	}
	for _, m := range upMutations() {
		for _, e := range []string{"interp", "vm"} {
			acc, vs := runC27(c27Trial{Mutation: m.Name, Engine: e, Via: "update", Restart: true})
			fmt.Printf("%-38s %-6s accepted=%-5v violations=%d\n", m.Name, e, acc, len(vs))
			for _, v := range vs {
				fmt.Println("     ", clip(v.String(), 900))
			}
		}
	}
}
