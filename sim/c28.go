package main

// C28 (and the enumeration half of C24): fault enumeration over a corpus of executions that between them reach
// every runtime.Interface method Cadence calls. For every corpus item and engine: one clean run records the trace;
// then for EVERY callback index k the item is re-executed from the same ledger with an error and with a panic at k.

import (
	"encoding/json"
	"fmt"
	"path/filepath"
	"sort"
	"strings"
	"time"

	"github.com/onflow/cadence"
	"github.com/onflow/cadence/common"
	"github.com/onflow/cadence/runtime"
	"github.com/onflow/cadence/sema"
)

type CorpusItem struct {
	Name    string    `json:"name"`
	Prelude []ExecReq `json:"prelude,omitempty"` // committed before the target, on top of the World deployment
	Target  ExecReq   `json:"target"`
	Owner   bool      `json:"owner_handler,omitempty"`
	API     string    `json:"api,omitempty"` // "" (Execute*) | "readstored" | "parsecheck"
}

const oldSyntaxContract = `pub contract Old { pub fun f(): Int { return 1 } }`
const recoveredContract = `access(all) contract Old { access(all) fun f(): Int { return 1 } }`

const libSrc = `access(all) contract Lib { access(all) fun twice(_ x: Int): Int { return x * 2 } init() {} }`

const upV1 = `access(all) contract Up { access(all) var x: Int; access(all) fun f(): Int { return 1 } init() { self.x = 1 } }`
const upV2 = `access(all) contract Up { access(all) var x: Int; access(all) fun f(): Int { return 2 } init() { self.x = 1 } }`
const upBad = `access(all) contract Up { access(all) var x: String; init() { self.x = "" } }`

func tx(src string, signers ...uint64) ExecReq {
	return ExecReq{Kind: "tx", Source: src, Signers: signers}
}
func script(src string, args ...string) ExecReq {
	return ExecReq{Kind: "script", Source: src, Args: args}
}

func hexLit(s string) string { return fmt.Sprintf("%q.decodeHex()", hexs(s)) }

func corpus() []CorpusItem {
	st := func(n int) string {
		s := "prepare("
		for i := 1; i <= n; i++ {
			if i > 1 {
				s += ", "
			}
			s += fmt.Sprintf("s%d: %s", i, fullAuth)
		}
		return s + ")"
	}
	items := []CorpusItem{
		{Name: "two-fresh-accounts", Target: tx(`import World from 0x1
			transaction { `+st(3)+` {
				s2.storage.save(1, to: /storage/x)
				s3.storage.save("s", to: /storage/y)
				s2.storage.save(<- World.make(1), to: /storage/r)
				World.end()
			} }`, 1, 2, 3)},
		{Name: "three-fresh-accounts-and-capacity", Target: tx(`import World from 0x1
			transaction { `+st(3)+` {
				s1.storage.save([1, 2, 3], to: /storage/a)
				s2.storage.save({"k": "v"}, to: /storage/b)
				s3.storage.save(World.mkS(1, [1], {}, [], nil, nil), to: /storage/c)
				log(s2.storage.used)
				World.end()
			} }`, 1, 2, 3)},
		{Name: "resources", Prelude: []ExecReq{tx(`import World from 0x1
			transaction { `+st(2)+` {
				let r <- World.make(1)
				r.add(<- World.make(2)); r.put("x", <- World.make(3)); r.push(5)
				s1.storage.save(<-r, to: /storage/r1)
			} }`, 1, 2)},
			Target: tx(`import World from 0x1
			transaction { `+st(2)+` {
				let r <- s1.storage.load<@World.R>(from: /storage/r1)!
				let k <- r.take(0)
				s2.storage.save(<-k, to: /storage/k)
				var i = 0
				while i < 12 { r.add(<- World.make(100 + i)); i = i + 1 }
				let a <- attach World.A(3) to <-r
				log(a[World.A]!.baseId())
				s1.storage.save(<-a, to: /storage/r2)
				destroy s2.storage.load<@World.R>(from: /storage/k)
				World.rich(4)
				World.end()
			} }`, 1, 2)},
		{Name: "capabilities", Prelude: []ExecReq{tx(`import World from 0x1
			transaction { `+st(1)+` { s1.storage.save(<- World.make(1), to: /storage/r) } }`, 1)},
			Target: tx(`import World from 0x1
			transaction { `+st(2)+` {
				let c = s1.capabilities.storage.issue<auth(World.X) &World.R>(/storage/r)
				s1.capabilities.publish(c, at: /public/r)
				let c2 = s1.capabilities.storage.issue<&World.R>(/storage/r)
				log(c.id); log(c2.id)
				log(c.borrow()!.secret())
				log(s1.capabilities.get<&World.R>(/public/r).check())
				log(s1.capabilities.borrow<&{World.RI}>(/public/r)!.name())
				log(getAccount(0x1).capabilities.exists(/public/r))
				let ctl = s1.capabilities.storage.getController(byCapabilityID: c2.id)!
				ctl.setTag("t"); ctl.retarget(/storage/other); log(c2.check())
				ctl.delete(); log(c2.check())
				s1.capabilities.storage.forEachController(forPath: /storage/r, fun (c: &StorageCapabilityController): Bool { log(c.capabilityID); return true })
				let ac = s1.capabilities.account.issue<&Account>()
				log(ac.check())
				s1.inbox.publish(c, name: "gift", recipient: 0x2)
				let got = s2.inbox.claim<auth(World.X) &World.R>("gift", provider: 0x1)
				log(got!.borrow()!.id)
				let un = s1.capabilities.unpublish(/public/r)
				log(un != nil)
				World.end()
			} }`, 1, 2)},
		{Name: "contracts-lifecycle", Prelude: []ExecReq{tx(DeployTx("Up", upV1), 2)},
			Target: tx(`import World from 0x1
			transaction { `+st(2)+` {
				log(s2.contracts.names)
				s2.contracts.add(name: "Lib", code: `+hexLit(libSrc)+`)
				let d = s2.contracts.update(name: "Up", code: `+hexLit(upV2)+`)
				log(d.name)
				log(s2.contracts.get(name: "Up")?.code?.length)
				log(s2.contracts.borrow<&AnyStruct>(name: "Nope") == nil)
				let removed = s2.contracts.remove(name: "Lib")
				log(removed?.name)
				log(s2.contracts.names)
				World.end()
			} }`, 1, 2)},
		{Name: "contracts-tryUpdate", Prelude: []ExecReq{tx(DeployTx("Up", upV1), 2)},
			Target: tx(`import World from 0x1
			transaction { `+st(2)+` {
				World.mark("TRY-BEGIN")
				let r = s2.contracts.tryUpdate(name: "Up", code: `+hexLit(upBad)+`)
				World.mark("TRY-END")
				log(r.deployedContract == nil)
				World.mark("TRY-BEGIN")
				let r2 = s2.contracts.tryUpdate(name: "Up", code: `+hexLit(upV2)+`)
				World.mark("TRY-END")
				log(r2.deployedContract?.name)
				World.end()
			} }`, 1, 2)},
		{Name: "import-and-call-updated", Prelude: []ExecReq{tx(DeployTx("Up", upV1), 2), tx(DeployTx("Lib", libSrc), 2)},
			Target: tx(`import World from 0x1
			import Up, Lib from 0x2
			transaction { `+st(1)+` { log(Up.f()); log(Lib.twice(Up.x)); World.end() } }`, 1)},
		{Name: "keys-and-crypto", Target: tx(`import World from 0x1
			transaction { `+st(1)+` {
				let pk = PublicKey(publicKey: "0102".decodeHex(), signatureAlgorithm: SignatureAlgorithm.ECDSA_P256)
				let k = s1.keys.add(publicKey: pk, hashAlgorithm: HashAlgorithm.SHA3_256, weight: 100.0)
				log(k.keyIndex)
				log(s1.keys.count)
				log(s1.keys.get(keyIndex: 0)?.weight)
				s1.keys.forEach(fun (key: AccountKey): Bool { log(key.keyIndex); return true })
				log(pk.verify(signature: "01ff".decodeHex(), signedData: "00".decodeHex(), domainSeparationTag: "tag", hashAlgorithm: HashAlgorithm.SHA2_256))
				log(HashAlgorithm.SHA3_256.hash([1, 2, 3]).length)
				log(HashAlgorithm.SHA2_256.hashWithTag([1], tag: "t").length)
				log(s1.keys.revoke(keyIndex: 0)?.isRevoked)
				let bls = PublicKey(publicKey: "0a0b".decodeHex(), signatureAlgorithm: SignatureAlgorithm.BLS_BLS12_381)
				log(bls.verifyPoP("0a".decodeHex()))
				log(BLS.aggregateSignatures(["01".decodeHex(), "02".decodeHex()])?.length)
				log(BLS.aggregatePublicKeys([bls, bls])?.publicKey?.length)
				World.end()
			} }`, 1)},
		{Name: "block-random-balances", Target: tx(`import World from 0x1
			transaction { `+st(1)+` {
				log(getCurrentBlock().height)
				log(getBlock(at: 5)?.timestamp)
				log(getBlock(at: 99999) == nil)
				log(revertibleRandom<UInt64>(modulo: 1000) < 1000)
				log(revertibleRandom<UInt8>())
				log(s1.balance); log(s1.availableBalance)
				log(s1.storage.used > 0); log(s1.storage.capacity)
				log(getAccount(0x2).balance)
				World.end()
			} }`, 1)},
		{Name: "create-account", Target: tx(`import World from 0x1
			transaction { `+st(1)+` {
				s1.storage.save(7, to: /storage/seven)
				let acct = Account(payer: s1)
				acct.storage.save(<- World.make(9), to: /storage/r)
				log(acct.address)
				World.end()
			} }`, 1)},
		{Name: "tx-arguments", Target: ExecReq{Kind: "tx", Source: `import World from 0x1
			transaction(a: Int, b: [String], c: {String: UInt8}) { ` + st(1) + ` { log(a); log(b); log(c); s1.storage.save(b, to: /storage/args); World.end() } }`,
			Signers: []uint64{1}, Args: []string{`{"type":"Int","value":"42"}`, `{"type":"Array","value":[{"type":"String","value":"x"}]}`, `{"type":"Dictionary","value":[{"key":{"type":"String","value":"k"},"value":{"type":"UInt8","value":"7"}}]}`}}},
		{Name: "script-arguments-and-auth-mutation", Prelude: []ExecReq{tx(`import World from 0x1
			transaction { `+st(1)+` { s1.storage.save(<- World.make(1), to: /storage/r); s1.storage.save([1,2,3], to: /storage/a) } }`, 1)},
			Target: script(`import World from 0x1
			access(all) fun main(n: Int, addr: Address): [Int] {
				let a = getAuthAccount<auth(Storage) &Account>(addr)
				let arr = a.storage.borrow<auth(Mutate) &[Int]>(from: /storage/a)!
				arr.append(n)
				a.storage.save("scratch", to: /storage/tmp)
				destroy a.storage.load<@World.R>(from: /storage/r)
				World.mark("ITER-BEGIN")
				a.storage.forEachStored(fun (p: StoragePath, t: Type): Bool { log(p); return true })
				World.mark("ITER-END")
				return *arr
			}`, `{"type":"Int","value":"9"}`, `{"type":"Address","value":"0x0000000000000001"}`)},
		{Name: "import-string-location", Target: script(`import foo from "foo"
			access(all) fun main(): Int { return foo() }`)},
		{Name: "import-recovered-program", Target: script(`import Old from 0x4
			access(all) fun main(): Int { return Old.f() }`)},
		{Name: "invoke-contract-function", Target: ExecReq{Kind: "invoke", Contract: "0x1.World", Function: "rich", InvokeArgs: []cadence.Value{cadence.NewInt(6)}, InvokeArgTypes: []sema.Type{sema.IntType}}},
		{Name: "read-stored", API: "readstored", Prelude: []ExecReq{tx(`import World from 0x1
			transaction { `+st(1)+` { let r <- World.make(1); r.add(<- World.make(2)); s1.storage.save(<-r, to: /storage/r) } }`, 1)},
			Target: ExecReq{Kind: "readstored", Source: "r"}},
		{Name: "parse-and-check", API: "parsecheck", Prelude: []ExecReq{tx(DeployTx("Lib", libSrc), 2)},
			Target: ExecReq{Kind: "parsecheck", Source: `import World from 0x1
			import Lib from 0x2
			access(all) fun main(): Int { return Lib.twice(World.counter) }`}},
		{Name: "owner-changed", Owner: true, Prelude: []ExecReq{tx(`import World from 0x1
			transaction { `+st(1)+` { s1.storage.save(<- World.make(1), to: /storage/r) } }`, 1)},
			Target: tx(`import World from 0x1
			transaction { `+st(2)+` {
				let r <- s1.storage.load<@World.R>(from: /storage/r)!
				s2.storage.save(<-r, to: /storage/r)
				World.end()
			} }`, 1, 2)},
		{Name: "failing-tx-after-mutation", Prelude: []ExecReq{tx(`import World from 0x1
			transaction { `+st(1)+` { s1.storage.save([1,2,3], to: /storage/a) } }`, 1)},
			Target: tx(`import World from 0x1
			transaction { `+st(1)+` {
				let arr = s1.storage.borrow<auth(Mutate) &[Int]>(from: /storage/a)!
				arr.append(4)
				s1.storage.save(<- World.make(5), to: /storage/r5)
				World.fail("after mutation")
			} }`, 1)},
	}
	// the language scenarios (scenarios.go): every step is a target on top of the scenario world and the scenario's earlier transactions
	for _, sc := range scenarios {
		var pre []ExecReq
		for _, c := range scnPrelude() {
			pre = append(pre, tx(DeployTx(c.Name, c.Source), c.Signers...))
		}
		for k, stp := range sc.Steps(NewRng(3)) {
			req := ExecReq{Kind: stp.Kind, Source: stp.Src}
			if stp.Kind == "tx" {
				req.Signers = []uint64{ScnAcct}
			}
			items = append(items, CorpusItem{Name: fmt.Sprintf("scn:%s:%d", sc.Name, k), Prelude: append([]ExecReq{}, pre...), Target: req})
			if stp.Kind == "tx" && stp.Fails == "" {
				pre = append(pre, req)
			}
		}
	}
	return items
}

var requiredMethods = []string{
	"ResolveLocation", "GetOrLoadProgram", "GetAccountContractCode", "GetCode", "GetValue", "AllocateSlabIndex", "SetValue",
	"GetSigningAccounts", "DecodeArgument", "ProgramLog", "EmitEvent", "GenerateUUID", "GenerateAccountID",
	"ValidateAccountCapabilitiesGet", "ValidateAccountCapabilitiesPublish", "UpdateAccountContractCode", "RemoveAccountContractCode",
	"GetAccountContractNames", "CreateAccount", "AddAccountKey", "GetAccountKey", "AccountKeysCount", "RevokeAccountKey", "ValidatePublicKey",
	"VerifySignature", "Hash", "BLSVerifyPOP", "BLSAggregateSignatures", "BLSAggregatePublicKeys", "GetCurrentBlockHeight", "GetBlockAtHeight",
	"ReadRandom", "GetAccountBalance", "GetAccountAvailableBalance", "GetStorageUsed", "GetStorageCapacity", "RecoverProgram",
	"MinimumRequiredVersion", "ResourceOwnerChanged",
}

// baseWorld builds the ledger the item's target runs on (World + prelude), using the interpreter.
func (it *CorpusItem) baseWorld() *World {
	n := NewNode(NodeConfig{Name: "base", Engine: "interp", Cache: "warm", EnvReuse: true}, NewWorld())
	n.H.W.Codes[common.AddressLocation{Name: "str:foo"}] = []byte(`access(all) fun foo(): Int { return 3 }`)
	if t := n.Exec(ExecReq{Kind: "tx", Source: DeployTx("World", WorldSrc), Signers: []uint64{1}}, true); t.Err != nil {
		panic("harness: corpus deploy failed: " + t.Err.Error())
	}
	if strings.Contains(it.Target.Source, "import Old") {
		// a contract deployed before Cadence 1.0 whose code was never migrated: its contract value exists,
		// its stored code is in the old syntax, and the host can recover a current-syntax program for it
		if t := n.Exec(ExecReq{Kind: "tx", Source: DeployTx("Old", recoveredContract), Signers: []uint64{4}, Salt: 5}, true); t.Err != nil {
			panic("harness: corpus deploy of Old failed: " + t.Err.Error())
		}
		n.H.W.Codes[common.AddressLocation{Address: addr(4), Name: "Old"}] = []byte(oldSyntaxContract)
		n.H.W.Codes[common.AddressLocation{Address: addr(4), Name: "recover:Old"}] = []byte(recoveredContract)
		n.H.EvictAll()
	}
	for i, p := range it.Prelude {
		p.Salt = uint64(900 + i)
		if t := n.Exec(p, true); t.Err != nil {
			panic(fmt.Sprintf("harness: corpus item %s prelude %d failed: %v", it.Name, i, t.Err))
		}
	}
	return n.H.W
}

// execItem runs the target on a fresh node over a clone of the base ledger.
func (it *CorpusItem) execItem(base *World, engine string, faults []FaultSpec) (*Node, *Transcript) {
	n := NewNode(NodeConfig{Name: engine, Engine: engine, Cache: "warm", EnvReuse: true, OwnerHandler: it.Owner}, base.Clone())
	req := it.Target
	req.Faults = faults
	req.Salt = 77
	switch it.API {
	case "readstored":
		return n, n.execAPI(req, func(ctx runtime.Context) (cadence.Value, error) {
			return n.RT.ReadStored(addr(1), cadence.Path{Domain: common.PathDomainStorage, Identifier: req.Source}, ctx)
		})
	case "parsecheck":
		return n, n.execAPI(req, func(ctx runtime.Context) (cadence.Value, error) {
			_, err := n.RT.ParseAndCheckProgram([]byte(req.Source), ctx)
			return nil, err
		})
	}
	return n, n.Exec(req, false)
}

// execAPI runs one of the non-Execute entry points under the same bookkeeping as Exec.
func (n *Node) execAPI(req ExecReq, f func(ctx runtime.Context) (cadence.Value, error)) *Transcript {
	h := n.H
	h.Begin(nil, req.Faults)
	t := &Transcript{Kind: req.Kind, FiredSeq: -1, FiredGauge: -1, EndSeq: -1}
	var err error
	var val cadence.Value
	func() {
		defer func() {
			if r := recover(); r != nil {
				t.Escaped = fmt.Sprintf("%v", r)
				if e, ok := r.(error); ok {
					err = e
				} else {
					err = fmt.Errorf("escaped panic: %v", r)
				}
			}
		}()
		val, err = f(n.ctx(common.ScriptLocation(req.location())))
	}()
	t.Err = err
	classify(t, err)
	if val != nil && err == nil {
		t.Result = Canon(val)
	}
	t.Logs, t.Writes, t.Trace, t.Fired, t.FiredSeq, t.FiredGauge = h.Logs, h.Writes, h.Trace, h.Fired, h.FiredSeq, h.FiredGauge
	t.GaugeN, t.MemN, t.CompN = h.GaugeN, h.MemN, h.CompN
	h.DiscardScript(err != nil)
	return t
}

type c28Custom struct {
	Item   CorpusItem  `json:"item"`
	Engine string      `json:"engine"`
	Faults []FaultSpec `json:"faults"`
}

// runFaulted executes one (item, engine, faults) triple and evaluates the C28 / C24 / C30 oracles on it.
func runFaulted(it *CorpusItem, base *World, engine string, faults []FaultSpec, stats *RunStats) []Violation {
	n, t := it.execItem(base, engine, faults)
	r := &Runner{Nodes: []*Node{n}, Stats: stats, P: &Plan{}}
	r.account(n, t)
	if len(t.Fired) == 0 {
		stats.NotFired++
		return nil
	}
	stats.AbortedAttempts++
	st := &Step{Kind: it.Target.Kind}
	r.invariants(0, n, st, t, true)
	r.checkFaulted(0, n, t, "")
	for i := range r.V {
		r.V[i].Detail = fmt.Sprintf("corpus item %q, engine %s, faults %v: %s", it.Name, engine, faults, r.V[i].Detail)
		r.V[i].Node = engine
		r.V[i].Engine = engine
	}
	return r.V
}

func c28Worker(w *WorkerCtx) {
	known := loadKnown()
	items := corpus()
	engines := []string{"interp", "vm"}
	modes := []string{"error", "panic"}
	if w.Tier == "thorough" {
		engines = append(engines, "vmpeep")
		modes = append(modes, "panicstr", "sticky")
	}
	nw := numCPU()
	covered := map[string]int{}
	job := 0
	for ii := range items {
		it := &items[ii]
		base := it.baseWorld()
		for _, engine := range engines {
			if it.API == "readstored" && engine != "interp" {
				continue // Runtime.Storage / ReadStored support the interpreter environment only
			}
			job++
			if job%nw != w.Index%nw {
				continue
			}
			stats := NewRunStats()
			_, clean := it.execItem(base, engine, nil)
			res := WorkResult{Kind: "item", Seed: uint64(ii), Stats: stats, Foreign: map[string]int{}, Extra: map[string]int{}}
			if clean.Class == "internal" || clean.Class == "escaped" {
				w.Emit(WorkResult{Kind: "harness-error", Msg: fmt.Sprintf("corpus item %s does not run cleanly on %s: %v", it.Name, engine, clean.Err)})
				return
			}
			for _, c := range clean.Trace {
				covered[c.Kind]++
				res.Extra["site:"+c.Kind]++
			}
			sites := map[string]bool{}
			var firstViolation *Violation
			var firstFaults []FaultSpec
			record := func(vs []Violation, faults []FaultSpec) {
				for _, v := range vs {
					isKnown := false
					for _, kf := range known {
						if kf.Matches(v, engine) {
							isKnown = true
						}
					}
					if v.Property != "C28" {
						res.Foreign[v.Property]++
						continue
					}
					if isKnown {
						res.Violations = append(res.Violations, v)
						continue
					}
					if firstViolation == nil {
						vc := v
						firstViolation = &vc
						firstFaults = faults
					}
				}
			}
			for k := range clean.Trace {
				for _, mode := range modes {
					faults := []FaultSpec{{Site: "*", Nth: k, Mode: mode}}
					record(runFaulted(it, base, engine, faults, stats), faults)
					sites[clean.Trace[k].Kind+"/"+mode] = true
				}
			}
			if w.Tier == "thorough" {
				// F8: pairs — a first fault where it may be legitimately absorbed (inside tryUpdate), a second one later
				for k := range clean.Trace {
					if clean.RegionAt(k) != "TRY" {
						continue
					}
					for k2 := k + 1; k2 < len(clean.Trace); k2 += 3 {
						faults := []FaultSpec{{Site: "*", Nth: k, Mode: "error"}, {Site: "*", Nth: k2, Mode: "error"}}
						record(runFaulted(it, base, engine, faults, stats), faults)
					}
				}
			}
			res.NonTrivial = true
			res.Shape = it.Name + "/" + engine
			res.Extra["distinct_site_modes"] = len(sites)
			res.Sample, _ = json.Marshal(map[string]any{"item": it.Name, "engine": engine, "clean_trace_len": len(clean.Trace), "clean_class": clean.Class,
				"trace_head": traceHead(clean, 14), "faults_per_index": modes})
			if firstViolation != nil {
				cu, _ := json.Marshal(c28Custom{Item: *it, Engine: engine, Faults: firstFaults})
				rf := &ReplayFile{Property: "C28", Oracle: firstViolation.Oracle, VerifSeed: int64(w.Seed), Tier: w.Tier, Minimised: true, Kind: "c28", Custom: cu, Violation: firstViolation}
				res.Replay = WriteReplay(filepath.Join(outDir(), "replay"), rf, fmt.Sprintf("%s-%s", it.Name, engine))
				res.Violations = append([]Violation{*firstViolation}, res.Violations...)
			}
			w.Emit(res)
		}
	}
	// plan-based part for the rest of the budget: faults in histories (different ledger shapes, warm caches, restarts)
	planWorker(w)
}

func traceHead(t *Transcript, n int) []string {
	var out []string
	for i, c := range t.Trace {
		if i >= n {
			break
		}
		out = append(out, c.Kind)
	}
	return out
}

func init() {
	customReplays["c28"] = func(rf *ReplayFile) []Violation {
		var cu c28Custom
		if err := json.Unmarshal(rf.Custom, &cu); err != nil {
			panic("harness: bad c28 replay: " + err.Error())
		}
		// InvokeArgs are not serialised: take the item from the corpus by name when it exists
		for _, it := range corpus() {
			if it.Name == cu.Item.Name {
				cu.Item = it
			}
		}
		base := cu.Item.baseWorld()
		return runFaulted(&cu.Item, base, cu.Engine, cu.Faults, NewRunStats())
	}
}

// coverageReport lists which Interface methods the corpus reached (evidence) and which required ones it did not.
func corpusCoverage() (map[string]int, []string) {
	covered := map[string]int{}
	for _, it := range corpus() {
		it := it
		base := it.baseWorld()
		for _, engine := range []string{"interp", "vm"} {
			if it.API == "readstored" && engine != "interp" {
				continue
			}
			_, t := it.execItem(base, engine, nil)
			for _, c := range t.Trace {
				covered[c.Kind]++
			}
		}
	}
	var missing []string
	for _, m := range requiredMethods {
		if covered[m] == 0 {
			missing = append(missing, m)
		}
	}
	sort.Strings(missing)
	return covered, missing
}

func devCorpus() {
	start := time.Now()
	for _, it := range corpus() {
		it := it
		base := it.baseWorld()
		for _, engine := range []string{"interp", "vm"} {
			_, t := it.execItem(base, engine, nil)
			kinds := map[string]int{}
			for _, c := range t.Trace {
				kinds[c.Kind]++
			}
			fmt.Printf("%-36s %-6s class=%-8s calls=%3d logs=%v\n", it.Name, engine, t.Class, len(t.Trace), clip(strings.Join(t.Logs, ","), 100))
			if t.Err != nil {
				fmt.Println("    ERR:", clip(t.Err.Error(), 1500))
			}
		}
	}
	cov, missing := corpusCoverage()
	fmt.Println("covered:", cov)
	fmt.Println("MISSING:", missing, time.Since(start))
}
