package main

// C30: every execution is bounded by the metering and depth limits.
// Runaway corpus x gauge budgets x engines x configured call-depth limits. The limits are host-injected (the gauges
// and Config.StackDepthLimit), which is why this property belongs to the family. A hang or a dead worker process IS the
// violation here, so both are reported as violations (with the trial as the replay file), not as harness errors.

import (
	"encoding/json"
	"fmt"
	"os"
	"path/filepath"
	goruntime "runtime"
	"strings"
	"time"
)

const runSrc = `
access(all) contract Run {
    access(all) struct Rec { access(all) let n: Int; init(_ n: Int) { self.n = n; if n > 0 { let r = Rec(n - 1) } } }
    access(all) struct RA { init(_ n: Int) { if n > 0 { let b = RB(n - 1) } } }
    access(all) struct RB { init(_ n: Int) { if n > 0 { let a = RA(n - 1) } } }
    access(all) resource RR { init(_ n: Int) { if n > 0 { let r <- create RR(n - 1); destroy r } } }
    access(all) fun mkRR(_ n: Int) { let r <- create RR(n); destroy r }
    access(all) fun rec(_ n: Int): Int { if n == 0 { return 0 }; return 1 + self.rec(n - 1) }
    access(all) fun even(_ n: Int): Bool { if n == 0 { return true }; return self.odd(n - 1) }
    access(all) fun odd(_ n: Int): Bool { if n == 0 { return false }; return self.even(n - 1) }
    access(all) struct interface HasDefault {
        access(all) fun go(_ n: Int): Int { if n == 0 { return 0 }; return self.go(n - 1) + 1 }
    }
    access(all) struct Impl: HasDefault { init() {} }
    access(all) struct WithCond {
        init() {}
        access(all) fun down(_ n: Int): Int {
            pre { n >= 0: "negative" }
            post { result >= 0: "negative result" }
            if n == 0 { return 0 }
            return self.down(n - 1) + 1
        }
    }
    access(all) struct Node {
        access(all) let n: Int
        access(all) var parent: &Node?
        access(all) var kids: [&Node]
        init(_ n: Int) { self.n = n; self.parent = nil; self.kids = [] }
        access(all) fun setParent(_ p: &Node) { self.parent = p }
        access(all) fun addKid(_ k: &Node) { self.kids.append(k) }
    }
    access(all) attachment Att for Impl {
        access(all) fun climb(_ n: Int): Int { if n == 0 { return 0 }; return base[Att]!.climb(n - 1) + 1 }
    }
    init() {}
}
`

type c30Program struct {
	Name   string
	Kind   string // "loop" (unbounded: only a gauge can stop it) | "rec" (recursion of depth N)
	Source string // %d is replaced by N for "rec"
}

func c30Programs() []c30Program {
	s := func(body string) string {
		return "import Run from 0x1\naccess(all) fun main(): Int {\n" + body + "\n}\n"
	}
	return []c30Program{
		{"while-true", "loop", s(`while true {}; return 0`)},
		{"while-counter", "loop", s(`var x = 0; while true { x = x + 1 }; return x`)},
		{"for-range-huge", "loop", s(`var x = 0; for i in InclusiveRange(0, 1000000000000) { x = x + i }; return x`)},
		{"array-growth", "loop", s(`var a: [Int] = []; var i = 0; while true { a.append(i); i = i + 1 }; return a.length`)},
		{"string-doubling", "loop", s(`var t = "ab"; while true { t = t.concat(t) }; return t.length`)},
		{"dictionary-growth", "loop", s(`var d: {Int: [Int]} = {}; var i = 0; while true { d[i] = [i, i]; i = i + 1 }; return d.length`)},
		{"nested-array-growth", "loop", s(`var v: [AnyStruct] = []; while true { v = [v, v] }; return 0`)},
		{"nested-loop", "loop", s(`var x = 0; while true { var j = 0; while j < 1000 { j = j + 1; x = x + j } }; return x`)},
		{"closure-self-call", "loop", `access(all) fun spin(_ n: Int): Int { return spin(n + 1) }
access(all) fun main(): Int { return spin(0) }`},
		{"storage-churn", "loop", `access(all) fun main(): Int {
    let a = getAuthAccount<auth(Storage) &Account>(0x1)
    var i = 0
    while true { a.storage.save([i, i, i], to: StoragePath(identifier: "k".concat(i.toString()))!); i = i + 1 }
    return i
}`},
		{"bigint-growth", "loop", s(`var x: Int = 3; while true { x = x * x }; return 0`)},
		// finite programs whose RESULT is cyclic (through references, with and without an optional in the cycle): exporting it must end
		{"export-cycle-optional", "finite", `import Run from 0x1
access(all) fun main(): &Run.Node {
    let root = Run.Node(0)
    let kid = Run.Node(1)
    let rr = &root as &Run.Node
    let kr = &kid as &Run.Node
    kr.setParent(rr)
    rr.addKid(kr)
    return rr
}`},
		{"export-cycle-array", "finite", `import Run from 0x1
access(all) fun main(): [&Run.Node] {
    let a = Run.Node(0)
    let b = Run.Node(1)
    let ar = &a as &Run.Node
    let br = &b as &Run.Node
    ar.addKid(br)
    br.addKid(ar)
    br.setParent(br)
    return [ar, br, ar]
}`},
		{"function-recursion", "rec", s(`return Run.rec(%d)`)},
		{"mutual-recursion", "rec", s(`return Run.even(%d) ? 1 : 0`)},
		{"struct-init-recursion", "rec", s(`let r = Run.Rec(%d); return r.n`)},
		{"mutual-init-recursion", "rec", s(`let a = Run.RA(%d); return 1`)},
		{"resource-init-recursion", "rec", s(`Run.mkRR(%d); return 1`)},
		{"default-function-recursion", "rec", s(`return Run.Impl().go(%d)`)},
		{"conditions-recursion", "rec", s(`return Run.WithCond().down(%d)`)},
		{"attachment-recursion", "rec", s(`let v = attach Run.Att() to Run.Impl(); return v[Run.Att]!.climb(%d)`)},
		{"script-function-recursion", "rec", `access(all) fun down(_ n: Int): Int { if n == 0 { return 0 }; return down(n - 1) + 1 }
access(all) fun main(): Int { return down(%d) }`},
	}
}

type c30Trial struct {
	Program string `json:"program"`
	Engine  string `json:"engine"`
	Site    string `json:"site"`  // "comp" | "mem" | "" (no gauge budget)
	Budget  int    `json:"budget"` // n-th call of the gauge at which the limit trips
	Depth   int    `json:"depth,omitempty"`
	Limit   uint64 `json:"stack_depth_limit,omitempty"` // Config.StackDepthLimit (0 = default)
}

// runAbortThenRetry: the history "an execution is aborted by a metering limit at gauge call k; the same node, with the same
// program cache, then executes again without a limit" for k swept over the whole gauge stream of the first execution (which
// starts with a cold cache, so that parsing, checking and - on the VM - compiling the imported contract lie inside the sweep).
// The retry must terminate and give the result of a run that was never interrupted; a hang is caught by the caller's watchdog.
func runAbortThenRetry(tr c30Trial) (vs []Violation, info string) {
	viol := func(oracle, key, f string, a ...any) {
		vs = append(vs, Violation{Property: "C30", Oracle: oracle, Node: tr.Engine, Engine: tr.Engine, Key: key + ":" + tr.Program,
			Detail: fmt.Sprintf("abort-then-retry on %s (%s limit): ", tr.Engine, tr.Site) + fmt.Sprintf(f, a...)})
	}
	src := "import Run from 0x1\naccess(all) fun main(): Int {\n    let v = attach Run.Att() to Run.Impl()\n    return Run.rec(12) + Run.WithCond().down(3) + v[Run.Att]!.climb(2) + Run.Impl().go(4)\n}\n"
	fresh := func() *Node {
		n := NewNode(NodeConfig{Name: tr.Engine, Engine: tr.Engine, Cache: "warm", EnvReuse: true, KeepLoaded: true}, NewWorld())
		if t := n.Exec(ExecReq{Kind: "tx", Source: DeployTx("Run", runSrc), Signers: []uint64{1}}, true); t.Err != nil {
			panic("harness: deploy Run: " + t.Err.Error())
		}
		n.H.EvictAll()
		return n
	}
	clean := fresh().Exec(ExecReq{Kind: "script", Source: src, Salt: 9}, false)
	if clean.Class != "ok" {
		panic("harness: abort-then-retry program fails: " + fmt.Sprint(clean.Err))
	}
	total := clean.MemN
	if tr.Site == "comp" {
		total = clean.CompN
	}
	stride := total/tr.Budget + 1
	fired := 0
	for k := 0; k < total; k += stride {
		n := fresh()
		t1 := n.Exec(ExecReq{Kind: "script", Source: src, Salt: 9, Faults: []FaultSpec{{Site: tr.Site, Nth: k, Mode: "sticky"}}}, false)
		if t1.FiredGauge < 0 {
			continue
		}
		fired++
		if t1.Class != "user" || !strings.Contains(t1.ErrType, "MeteringError") {
			viol("limit-error", "limit-error", "the %s limit tripped at gauge call %d but the execution ended with %s %s: %s", tr.Site, k, t1.Class, t1.ErrType, t1.ErrMsg)
			return vs, info
		}
		t2 := n.Exec(ExecReq{Kind: "script", Source: src, Salt: 9}, false)
		if t2.Class != "ok" || t2.Result != clean.Result {
			viol("retry-after-limit", "retry", "after an execution was aborted by the %s limit at gauge call %d of %d, the next execution on the same node ended %s %s (result %s, uninterrupted result %s): %s", tr.Site, k, total, t2.Class, t2.ErrType, t2.Result, clean.Result, t2.ErrMsg)
			return vs, info
		}
	}
	return vs, fmt.Sprintf("class=ok type=abort-then-retry aborts=%d gauge=%d", fired, total)
}

func runC30(tr c30Trial) (vs []Violation, info string) {
	if tr.Program == "abort-then-retry" {
		return runAbortThenRetry(tr)
	}
	var prog *c30Program
	for _, p := range c30Programs() {
		if p.Name == tr.Program {
			pc := p
			prog = &pc
		}
	}
	if prog == nil {
		panic("harness: unknown C30 program " + tr.Program)
	}
	viol := func(oracle, key, f string, a ...any) {
		vs = append(vs, Violation{Property: "C30", Oracle: oracle, Node: tr.Engine, Engine: tr.Engine, Key: key + ":" + tr.Program,
			Detail: fmt.Sprintf("program %s on %s (gauge %s#%d, depth %d, configured call-depth limit %d): ", tr.Program, tr.Engine, tr.Site, tr.Budget, tr.Depth, tr.Limit) + fmt.Sprintf(f, a...)})
	}
	n := NewNode(NodeConfig{Name: tr.Engine, Engine: tr.Engine, Cache: "warm", EnvReuse: true, StackDepthLimit: tr.Limit}, NewWorld())
	if t := n.Exec(ExecReq{Kind: "tx", Source: DeployTx("Run", runSrc), Signers: []uint64{1}}, true); t.Err != nil {
		panic("harness: deploy Run: " + t.Err.Error())
	}
	src := prog.Source
	if prog.Kind == "rec" {
		src = fmt.Sprintf(src, tr.Depth)
	}
	var faults []FaultSpec
	// Limits as a real host sets them: weighted sums of the metered intensities / amounts. The property presupposes a finite
	// computation limit (a memory limit alone cannot bound a loop that does not allocate); every host also sets a memory limit.
	if tr.Site != "" {
		faults = []FaultSpec{{Site: tr.Site + "sum", Nth: tr.Budget, Mode: "sticky"}}
	}
	if tr.Site != "comp" {
		faults = append(faults, FaultSpec{Site: "compsum", Nth: 3_000_000, Mode: "sticky"})
	}
	if tr.Site != "mem" {
		faults = append(faults, FaultSpec{Site: "memsum", Nth: 400_000_000, Mode: "sticky"})
	}
	t := n.Exec(ExecReq{Kind: "script", Source: src, Faults: faults, Salt: 9}, false)
	info = fmt.Sprintf("class=%s type=%s gauge=%d", t.Class, t.ErrType, t.GaugeN)
	limit := tr.Limit
	if limit == 0 {
		limit = 2000
	}
	switch {
	case t.Escaped != "":
		viol("no-escape", "escaped", "a panic escaped the runtime API: %s", firstLine(t.Escaped))
	case t.Class == "internal" || t.Class == "unknown":
		viol("user-error", "internal", "ended with an %s error %s: %s", t.Class, t.ErrType, t.ErrMsg)
	case t.FiredGauge >= 0:
		// the limit tripped: the execution must end with the metering user error, promptly
		if t.Class != "user" || !strings.Contains(t.ErrType, "MeteringError") || !t.CarriesInjected() {
			viol("limit-error", "limit-error", "the %s limit tripped but the execution ended with %s %s: %s", tr.Site, t.Class, t.ErrType, t.ErrMsg)
		}
		if after := t.GaugeN - t.FiredGauge; after > 64 {
			viol("limit-prompt", "limit-prompt", "the execution went on for %d further metering calls after the limit was reached", after)
		}
	case prog.Kind == "finite":
		if t.Class != "ok" {
			viol("finite-program", "finite-fails", "a program of a dozen statements ended with %s %s: %s", t.Class, t.ErrType, t.ErrMsg)
		}
	case prog.Kind == "loop":
		if t.Class == "ok" {
			viol("terminates", "unbounded-ok", "an unbounded loop completed normally (%s)", t.Result)
		} else if t.Class != "user" {
			viol("user-error", "class", "ended with %s %s", t.Class, t.ErrType)
		}
	case prog.Kind == "rec":
		deep := uint64(tr.Depth) > limit+8
		shallow := uint64(tr.Depth)+8 < limit
		isDepthErr := strings.Contains(t.ErrType, "CallStackLimitExceededError")
		switch {
		case deep && !isDepthErr:
			viol("call-depth", "depth-not-enforced", "recursion of depth %d exceeds the call-depth limit %d but ended with class=%s type=%s result=%s", tr.Depth, limit, t.Class, t.ErrType, t.Result)
		case shallow && t.Class != "ok" && !isDepthErr:
			viol("call-depth", "shallow-fails", "recursion of depth %d is below the call-depth limit %d but failed with %s: %s", tr.Depth, limit, t.ErrType, t.ErrMsg)
		}
		// (a recursion below the limit may legitimately hit the limit: one source-level call can take several frames,
		// e.g. through default functions and condition wrappers; the property only speaks about recursion beyond the limit)
	}
	return vs, info
}

func c30Trials(tier string, rng *Rng) []c30Trial {
	var out []c30Trial
	engines := []string{"interp", "vm"}
	budgets := []int{0, 300, 9000, 200000, 2500000}
	if tier == "thorough" {
		budgets = append(budgets, 8000000)
		engines = append(engines, "vmpeep")
	}
	// histories: aborted by a limit, then executed again on the same node (Budget = number of abort points swept)
	points := 250
	if tier == "thorough" {
		points = 2500
	}
	for _, e := range engines {
		for _, site := range []string{"mem", "comp"} {
			out = append(out, c30Trial{Program: "abort-then-retry", Engine: e, Site: site, Budget: points})
		}
	}
	for _, p := range c30Programs() {
		for _, e := range engines {
			if p.Kind == "finite" {
				// generous limits (the defaults of runC30) and a few small ones: a limit may cut the program short, nothing else may
				out = append(out, c30Trial{Program: p.Name, Engine: e})
				continue
			}
			if p.Kind == "loop" {
				for _, site := range []string{"comp", "mem"} {
					for _, b := range budgets {
						out = append(out, c30Trial{Program: p.Name, Engine: e, Site: site, Budget: b + rng.Intn(b/10+7)})
					}
				}
				continue
			}
			// recursion: depth around the configured limit, without and with a gauge budget
			for _, lim := range []uint64{0, 50, 300} {
				l := int(lim)
				if l == 0 {
					l = 2000
				}
				for _, d := range []int{l / 2, l - 20, l + 20, 3 * l, 40 * l} {
					out = append(out, c30Trial{Program: p.Name, Engine: e, Depth: d, Limit: lim})
				}
				out = append(out, c30Trial{Program: p.Name, Engine: e, Depth: 1 << 40, Limit: lim, Site: "comp", Budget: 200000 + rng.Intn(1000)})
			}
		}
	}
	return out
}

// c30Watchdog: 180 s plus 60 microseconds per unit of the trial's budget (a budget of millions of metered operations is millions of
// operations of real work, on a machine that other worker processes share): slow is not hung.
func c30Watchdog(tr c30Trial) time.Duration {
	return 180*time.Second + time.Duration(tr.Budget)*60*time.Microsecond
}

// heapGuard: metering that does not bound real memory is a violation of the property; rather than letting the kernel kill
// the sandbox, the process reports it and exits when its heap passes 10 GB.
func heapGuard(onExceed func(gb float64)) {
	go func() {
		var ms goruntime.MemStats
		for {
			time.Sleep(200 * time.Millisecond)
			goruntime.ReadMemStats(&ms)
			if ms.HeapAlloc > 10<<30 {
				onExceed(float64(ms.HeapAlloc) / (1 << 30))
			}
		}
	}()
}

func c30Worker(w *WorkerCtx) {
	known := loadKnown()
	var current c30Trial
	heapGuard(func(gb float64) {
		cu, _ := json.Marshal(current)
		v := Violation{Property: "C30", Oracle: "memory-bounded", Node: current.Engine, Engine: current.Engine, Key: "heap-explosion:" + current.Program,
			Detail: fmt.Sprintf("program %s on %s: the process heap reached %.1f GB although a computation limit (%s %d) and a memory limit were set", current.Program, current.Engine, gb, current.Site, current.Budget)}
		rf := &ReplayFile{Property: "C30", Oracle: v.Oracle, VerifSeed: int64(w.Seed), Tier: w.Tier, Kind: "c30", Custom: cu, Violation: &v}
		path := WriteReplay(filepath.Join(outDir(), "replay"), rf, sanitize("heap-"+current.Program+"-"+current.Engine))
		w.Emit(WorkResult{Kind: "item", Violations: []Violation{v}, Replay: path, Shape: "heap", NonTrivial: true})
		os.Exit(0)
	})
	trials := c30Trials(w.Tier, NewRng(uint64(w.Seed/7919)))
	nw := numCPU()
	for i, tr := range trials {
		if i%nw != w.Index%nw {
			continue
		}
		cu, _ := json.Marshal(tr)
		current = tr
		w.Emit(WorkResult{Kind: "begin", Seed: uint64(i), Sample: cu})
		type outT struct {
			vs   []Violation
			info string
		}
		ch := make(chan outT, 1)
		go func() {
			vs, info := runC30(tr)
			ch <- outT{vs, info}
		}()
		var o outT
		select {
		case o = <-ch:
		case <-time.After(c30Watchdog(tr)):
			// a hang is the violation
			v := Violation{Property: "C30", Oracle: "terminates", Node: tr.Engine, Engine: tr.Engine, Key: "hang:" + tr.Program,
				Detail: fmt.Sprintf("program %s on %s (gauge %s#%d, depth %d, limit %d) did not end within %v of wall-clock time", tr.Program, tr.Engine, tr.Site, tr.Budget, tr.Depth, tr.Limit, c30Watchdog(tr))}
			rf := &ReplayFile{Property: "C30", Oracle: v.Oracle, VerifSeed: int64(w.Seed), Tier: w.Tier, Kind: "c30", Custom: cu, Violation: &v}
			path := WriteReplay(filepath.Join(outDir(), "replay"), rf, sanitize(fmt.Sprintf("hang-%s-%s", tr.Program, tr.Engine)))
			w.Emit(WorkResult{Kind: "item", Seed: uint64(i), Violations: []Violation{v}, Replay: path, Shape: fmt.Sprint(tr), NonTrivial: true})
			return
		}
		res := WorkResult{Kind: "item", Seed: uint64(i), Stats: NewRunStats(), Shape: fmt.Sprintf("%s/%s/%s/%d/%d/%d", tr.Program, tr.Engine, tr.Site, tr.Budget, tr.Depth, tr.Limit), NonTrivial: true, Extra: map[string]int{}}
		res.Stats.Execs = 1
		res.Extra["outcome:"+strings.SplitN(o.info, " gauge", 2)[0]]++
		if i < nw {
			res.Sample, _ = json.Marshal(map[string]any{"trial": tr, "outcome": o.info})
		}
		for _, v := range o.vs {
			isKnown := false
			for _, kf := range known {
				if kf.Matches(v, tr.Engine) {
					isKnown = true
				}
			}
			res.Violations = append(res.Violations, v)
			if !isKnown && res.Replay == "" {
				vc := v
				rf := &ReplayFile{Property: "C30", Oracle: v.Oracle, VerifSeed: int64(w.Seed), Tier: w.Tier, Minimised: true, Kind: "c30", Custom: cu, Violation: &vc}
				res.Replay = WriteReplay(filepath.Join(outDir(), "replay"), rf, sanitize(fmt.Sprintf("%s-%s-%s%d-d%d-l%d", tr.Program, tr.Engine, tr.Site, tr.Budget, tr.Depth, tr.Limit)))
				res.Violations[0], res.Violations[len(res.Violations)-1] = res.Violations[len(res.Violations)-1], res.Violations[0]
			}
		}
		w.Emit(res)
	}
}

func init() {
	customReplays["c30"] = func(rf *ReplayFile) []Violation {
		var tr c30Trial
		if err := json.Unmarshal(rf.Custom, &tr); err != nil {
			panic("harness: bad c30 replay: " + err.Error())
		}
		vs, _ := runC30(tr)
		return vs
	}
}

func devC30() {
	heapGuard(func(gb float64) { fmt.Printf("HEAP EXPLOSION %.1f GB\n", gb); os.Exit(3) })
	for _, tr := range c30Trials("quick", NewRng(1)) {
		if len(os.Args) > 2 && !strings.Contains(tr.Program, os.Args[2]) {
			continue
		}
		start := time.Now()
		vs, info := runC30(tr)
		fmt.Printf("%-28s %-6s %-4s b=%-7d d=%-14d L=%-4d %-60s %6.2fs viol=%d\n", tr.Program, tr.Engine, tr.Site, tr.Budget, tr.Depth, tr.Limit, clip(info, 60), time.Since(start).Seconds(), len(vs))
		for _, v := range vs {
			fmt.Println("      ", clip(v.String(), 500))
		}
	}
}
