package main

// C35: compilation is deterministic; instruction encodings round-trip.
// Determinism is a statement over repetitions, process restarts, CPU counts and Go map iteration orders, so it is decided
// the simulation way: the same seeded histories are compiled on several VM replicas in-process (cold / warm caches, with and
// without peephole) and in every worker process (which run under different CPU affinities and GOMAXPROCS); renderings are
// compared replica against replica and, by digest, process against process. Every instruction of every compiled program is
// encoded and decoded back. (The sweep over randomly constructed instructions is input generation and not part of this check;
// a small LEB128 boundary sweep is included because it is free.)

import (
	"crypto/sha256"
	"encoding/hex"
	"encoding/json"
	"fmt"
	"path/filepath"
	"reflect"
	"sort"
	"strings"

	"github.com/onflow/cadence/bbq"
	"github.com/onflow/cadence/bbq/leb128"
	"github.com/onflow/cadence/bbq/opcode"
	"github.com/onflow/cadence/runtime"
)

func renderProgram(p *bbq.InstructionProgram) string {
	var sb strings.Builder
	sb.WriteString(bbq.NewInstructionsProgramPrinter(false, false, false).PrintProgram(p))
	for i, f := range p.Functions {
		fmt.Fprintf(&sb, "fn %d %q %q params=%d typeparams=%d locals=%d type=%d code=%d\n", i, f.Name, f.QualifiedName, f.ParameterCount, f.TypeParameterCount, f.LocalCount, f.TypeIndex, len(f.Code))
	}
	for i, c := range p.Contracts {
		fmt.Fprintf(&sb, "contract %d %+v\n", i, *c)
	}
	for i, v := range p.Variables {
		fmt.Fprintf(&sb, "var %d %s getter=%v\n", i, v.Name, v.Getter != nil)
	}
	for i, g := range p.Globals {
		gi := g.GetGlobalInfo()
		fmt.Fprintf(&sb, "global %d %T name=%q qualified=%q location=%v index=%d\n", i, g, gi.Name, gi.QualifiedName, gi.Location, gi.Index)
	}
	for i, t := range p.Types {
		fmt.Fprintf(&sb, "type %d %v\n", i, t)
	}
	return sb.String()
}

// roundTrip encodes every instruction of the program and decodes the byte code back.
func roundTrip(p *bbq.InstructionProgram) (n int, problem string) {
	for _, f := range p.Functions {
		if f.Code == nil {
			continue
		}
		var code []byte
		for _, ins := range f.Code {
			ins.Encode(&code)
		}
		if len(code) >= 1<<16 {
			continue // instruction pointers are 16 bit: such a function cannot be decoded in one piece
		}
		dec := opcode.DecodeInstructions(code)
		n += len(dec)
		if len(dec) != len(f.Code) {
			return n, fmt.Sprintf("function %s: %d instructions encoded, %d decoded", f.QualifiedName, len(f.Code), len(dec))
		}
		for i := range dec {
			if !reflect.DeepEqual(normaliseIns(dec[i]), normaliseIns(f.Code[i])) {
				return n, fmt.Sprintf("function %s instruction %d: %#v decodes to %#v", f.QualifiedName, i, f.Code[i], dec[i])
			}
		}
		var code2 []byte
		for _, ins := range dec {
			ins.Encode(&code2)
		}
		if string(code) != string(code2) {
			return n, fmt.Sprintf("function %s: re-encoding the decoded instructions gives different bytes", f.QualifiedName)
		}
	}
	return n, ""
}

// normaliseIns: nil and empty slices are the same operand.
func normaliseIns(i opcode.Instruction) string { return fmt.Sprintf("%T%+v", i, i) }

type c35Result struct {
	Digest     string
	Programs   int
	Instr      int
	Violations []Violation
}

// compileHistory runs the plan's committed history on VM replicas and compares what they compiled.
func compileHistory(seed uint64) c35Result {
	var res c35Result
	r := NewRng(seed)
	g := &Gen{R: r, Cfg: cfgFor("C34", r)}
	g.Cfg.Nodes = []NodeConfig{
		{Name: "v1", Engine: "vm", Cache: "cold", EnvReuse: true},
		{Name: "v2", Engine: "vm", Cache: "warm", EnvReuse: false},
		{Name: "v3", Engine: "vm", Cache: "cold", EnvReuse: false},
		{Name: "p1", Engine: "vmpeep", Cache: "cold", EnvReuse: true},
		{Name: "p2", Engine: "vmpeep", Cache: "warm", EnvReuse: true},
	}
	g.Cfg.FaultRate, g.Cfg.NoiseRate = 0, 0
	p := g.Plan(seed)
	run := NewRunner(p, RunOpts{})
	h := sha256.New()
	viol := func(oracle, key, f string, a ...any) {
		res.Violations = append(res.Violations, Violation{Property: "C35", Oracle: oracle, Key: key, Detail: fmt.Sprintf("plan seed %d: ", seed) + fmt.Sprintf(f, a...)})
	}
	for i := range p.Steps {
		run.step(i)
		// collect what every replica holds compiled after this step
		rendered := make([]map[string]string, len(run.Nodes))
		for ni, n := range run.Nodes {
			rendered[ni] = map[string]string{}
			for loc, e := range n.H.Programs {
				if e == nil || e.p == nil {
					continue
				}
				ip := runtime.VerifCompiledProgram(e.p)
				if ip == nil {
					continue
				}
				rendered[ni][loc.String()] = renderProgram(ip)
				if ni == 0 || ni == 3 {
					cnt, problem := roundTrip(ip)
					res.Instr += cnt
					if problem != "" {
						viol("encoding.round-trip", "round-trip", "step %d, %s on %s: %s", i, loc, n.Cfg.Name, problem)
					}
				}
			}
		}
		compare := func(a, b int) {
			for loc, ra := range rendered[a] {
				if rb, ok := rendered[b][loc]; ok && ra != rb {
					viol("compile.deterministic", "compile-differs", "step %d: %s compiled differently on %s and %s:\n%s", i, loc, run.Nodes[a].Cfg.Name, run.Nodes[b].Cfg.Name, lineDiff(ra, rb))
				}
			}
		}
		compare(0, 1)
		compare(0, 2)
		compare(3, 4)
		for _, ni := range []int{0, 3} {
			var locs []string
			for loc := range rendered[ni] {
				locs = append(locs, loc)
			}
			sort.Strings(locs)
			for _, loc := range locs {
				res.Programs++
				h.Write([]byte(loc))
				h.Write([]byte(rendered[ni][loc]))
			}
		}
		if len(res.Violations) > 0 {
			break
		}
	}
	res.Digest = hex.EncodeToString(h.Sum(nil))[:20]
	return res
}

func lebSweep(r *Rng) string {
	var vals []uint64
	for s := uint(0); s < 64; s++ {
		vals = append(vals, 1<<s, (1<<s)-1, (1<<s)+1)
	}
	vals = append(vals, 0, ^uint64(0))
	for i := 0; i < 2000; i++ {
		vals = append(vals, r.U64()>>uint(r.Intn(64)))
	}
	for _, v := range vals {
		b := leb128.AppendUint64(nil, v)
		got, n, err := leb128.ReadUint64(b)
		if err != nil || got != v || n != len(b) {
			return fmt.Sprintf("uint64 %d encodes to %x and decodes to %d (count %d, err %v)", v, b, got, n, err)
		}
		if v <= 0xffffffff {
			b := leb128.AppendUint32(nil, uint32(v))
			got, n, err := leb128.ReadUint32(b)
			if err != nil || got != uint32(v) || n != len(b) {
				return fmt.Sprintf("uint32 %d encodes to %x and decodes to %d (count %d, err %v)", v, b, got, n, err)
			}
		}
		for _, sv := range []int64{int64(v), -int64(v)} {
			b := leb128.AppendInt64(nil, sv)
			got, n, err := leb128.ReadInt64(b)
			if err != nil || got != sv || n != len(b) {
				return fmt.Sprintf("int64 %d encodes to %x and decodes to %d (count %d, err %v)", sv, b, got, n, err)
			}
			if sv >= -(1<<31) && sv < 1<<31 {
				b := leb128.AppendInt32(nil, int32(sv))
				got, n, err := leb128.ReadInt32(b)
				if err != nil || got != int32(sv) || n != len(b) {
					return fmt.Sprintf("int32 %d encodes to %x and decodes to %d (count %d, err %v)", sv, b, got, n, err)
				}
			}
		}
	}
	return ""
}

func c35Worker(w *WorkerCtx) {
	// every worker compiles the SAME histories (the seeds do not depend on the worker), under its own CPU configuration
	base := (w.Seed / 7919) * 1000
	nseeds := 6
	if w.Tier == "thorough" {
		nseeds = 60
	}
	if problem := lebSweep(NewRng(w.Seed)); problem != "" {
		v := Violation{Property: "C35", Oracle: "leb128.round-trip", Key: "leb128", Detail: problem}
		rf := &ReplayFile{Property: "C35", Oracle: v.Oracle, VerifSeed: int64(w.Seed), Tier: w.Tier, Kind: "c35", Violation: &v}
		w.Emit(WorkResult{Kind: "item", Violations: []Violation{v}, Replay: WriteReplay(filepath.Join(outDir(), "replay"), rf, "leb128"), NonTrivial: true, Shape: "leb"})
		return
	}
	{
		kinds, cnt, problem := operandSweep(NewRng(w.Seed ^ 0x35))
		if problem != "" {
			v := Violation{Property: "C35", Oracle: "instruction.operand-round-trip", Key: "operand-sweep", Detail: problem}
			rf := &ReplayFile{Property: "C35", Oracle: v.Oracle, VerifSeed: int64(w.Seed), Tier: w.Tier, Kind: "c35", Violation: &v}
			w.Emit(WorkResult{Kind: "item", Violations: []Violation{v}, Replay: WriteReplay(filepath.Join(outDir(), "replay"), rf, "operand-sweep"), NonTrivial: true, Shape: "operand-sweep"})
			return
		}
		if kinds < 50 {
			w.Emit(WorkResult{Kind: "harness-error", Msg: fmt.Sprintf("operand sweep reached only %d instruction kinds", kinds)})
			return
		}
		w.Emit(WorkResult{Kind: "item", Seed: w.Seed, Stats: NewRunStats(), Shape: fmt.Sprintf("operand-sweep/worker-%d", w.Index), NonTrivial: true,
			Extra: map[string]int{"operand_sweep_instruction_kinds": kinds, "operand_sweep_round_trips": cnt}})
	}
	// compile zoo: the same multi-contract worlds in every worker process, each compiled from scratch several times
	nzoo := 8
	if w.Tier == "thorough" {
		nzoo = 40
	}
	for k := 0; k < nzoo; k++ {
		seed := base + 500 + uint64(k)
		r := compileZoo(seed, 4)
		res := WorkResult{Kind: "item", Seed: seed, Stats: NewRunStats(), Shape: fmt.Sprintf("zoo-%d/worker-%d", seed, w.Index), NonTrivial: r.Programs > 3,
			Extra: map[string]int{fmt.Sprintf("digest:z%d:%s", seed, r.Digest): 1, "programs_rendered": r.Programs, "instructions_round_tripped": r.Instr, "compile_zoo_worlds": 1}}
		res.Stats.Execs = r.Programs
		if len(r.Violations) > 0 {
			v := r.Violations[0]
			if v.Oracle == "zoo.builds" {
				w.Emit(WorkResult{Kind: "harness-error", Msg: "compile zoo does not build: " + clip(v.Detail, 3000)})
				return
			}
			cu, _ := json.Marshal(map[string]uint64{"zoo": seed})
			rf := &ReplayFile{Property: "C35", Oracle: v.Oracle, VerifSeed: int64(w.Seed), Tier: w.Tier, Kind: "c35", Custom: cu, Violation: &v}
			res.Replay = WriteReplay(filepath.Join(outDir(), "replay"), rf, fmt.Sprintf("zoo-%d", seed))
			res.Violations = []Violation{v}
			w.Emit(res)
			return
		}
		w.Emit(res)
	}
	for k := 0; k < nseeds; k++ {
		seed := base + uint64(k)
		r := compileHistory(seed)
		res := WorkResult{Kind: "item", Seed: seed, Stats: NewRunStats(), Shape: fmt.Sprintf("history-%d/worker-%d", seed, w.Index), NonTrivial: r.Programs > 3,
			Extra: map[string]int{fmt.Sprintf("digest:%d:%s", seed, r.Digest): 1, "programs_rendered": r.Programs, "instructions_round_tripped": r.Instr}}
		res.Stats.Execs = r.Programs
		if w.Index == 0 && k == 0 {
			res.Sample, _ = json.Marshal(map[string]any{"history_seed": seed, "programs": r.Programs, "instructions": r.Instr, "digest": r.Digest})
		}
		if len(r.Violations) > 0 {
			v := r.Violations[0]
			cu, _ := json.Marshal(map[string]uint64{"seed": seed})
			rf := &ReplayFile{Property: "C35", Oracle: v.Oracle, VerifSeed: int64(w.Seed), Tier: w.Tier, Kind: "c35", Custom: cu, Violation: &v}
			res.Replay = WriteReplay(filepath.Join(outDir(), "replay"), rf, fmt.Sprintf("history-%d", seed))
			res.Violations = []Violation{v}
			w.Emit(res)
			return
		}
		w.Emit(res)
	}
}

// c35Post: every worker process must have produced the same digest for the same history.
func c35Post(extra map[string]int) []Violation {
	bySeed := map[string][]string{}
	for k := range extra {
		if strings.HasPrefix(k, "digest:") {
			parts := strings.SplitN(k, ":", 3)
			bySeed[parts[1]] = append(bySeed[parts[1]], parts[2])
		}
	}
	var vs []Violation
	for seed, ds := range bySeed {
		if len(ds) > 1 {
			sort.Strings(ds)
			vs = append(vs, Violation{Property: "C35", Oracle: "compile.deterministic-across-processes", Key: "digest-differs",
				Detail: fmt.Sprintf("history %s compiled to different bytecode in different worker processes (CPU affinity / GOMAXPROCS / map order vary): digests %v", seed, ds)})
		}
	}
	return vs
}

func init() {
	customReplays["c35"] = func(rf *ReplayFile) []Violation {
		var cu map[string]uint64
		if len(rf.Custom) == 0 {
			if p := lebSweep(NewRng(uint64(rf.VerifSeed))); p != "" {
				return []Violation{{Property: "C35", Oracle: "leb128.round-trip", Detail: p}}
			}
			if _, _, p := operandSweep(NewRng(uint64(rf.VerifSeed) ^ 0x35)); p != "" {
				return []Violation{{Property: "C35", Oracle: "instruction.operand-round-trip", Detail: p}}
			}
			return nil
		}
		if err := json.Unmarshal(rf.Custom, &cu); err != nil {
			panic("harness: bad c35 replay")
		}
		if z, ok := cu["zoo"]; ok {
			// map iteration order is re-drawn on every run: repeat the compilations a few times
			for i := 0; i < 5; i++ {
				if vs := compileZoo(z, 6).Violations; len(vs) > 0 {
					return vs
				}
			}
			return nil
		}
		return compileHistory(cu["seed"]).Violations
	}
}
