package main

import (
	"fmt"
	"reflect"

	"github.com/onflow/cadence/bbq/opcode"
)

// operandSweep: "every instruction decodes back to itself from its encoding" for every opcode the decoder knows, with operand
// values at and around every byte / LEB boundary (compiled programs only reach small operands). An instruction of each kind is
// obtained by decoding its opcode followed by zero bytes; its operand fields are then filled by reflection.
var sweepU16 = []uint64{0, 1, 2, 127, 128, 129, 254, 255, 256, 257, 300, 511, 512, 16383, 16384, 32767, 32768, 65279, 65534, 65535}

func fillOperand(v reflect.Value, r *Rng, depth int) {
	switch v.Kind() {
	case reflect.Bool:
		v.SetBool(r.Intn(2) == 0)
	case reflect.Uint8:
		v.SetUint(uint64(r.Intn(256)))
	case reflect.Uint16, reflect.Uint, reflect.Uint32, reflect.Uint64:
		if r.Intn(4) == 0 {
			v.SetUint(uint64(r.Intn(65536)))
		} else {
			v.SetUint(sweepU16[r.Intn(len(sweepU16))])
		}
	case reflect.Slice:
		n := r.Intn(4)
		if r.Intn(8) == 0 {
			n = 250 + r.Intn(12)
		}
		if n == 0 {
			return
		}
		s := reflect.MakeSlice(v.Type(), n, n)
		for i := 0; i < n; i++ {
			fillOperand(s.Index(i), r, depth+1)
		}
		v.Set(s)
	case reflect.Struct:
		for i := 0; i < v.NumField(); i++ {
			if v.Field(i).CanSet() {
				fillOperand(v.Field(i), r, depth+1)
			}
		}
	}
}

func decodeOne(code []byte) (ins opcode.Instruction, used int, ok bool) {
	defer func() {
		if recover() != nil {
			ok = false
		}
	}()
	var ip uint16
	ins = opcode.DecodeInstruction(&ip, code)
	return ins, int(ip), ins != nil
}

func operandSweep(r *Rng) (kinds, n int, problem string) {
	for op := 0; op < 256; op++ {
		proto, _, ok := decodeOne(append([]byte{byte(op)}, make([]byte, 32)...))
		if !ok {
			continue
		}
		if _, unknown := proto.(opcode.InstructionUnknown); unknown && op != 0 {
			continue
		}
		kinds++
		t := reflect.TypeOf(proto)
		if t.Kind() != reflect.Struct {
			continue
		}
		trials := 1
		if t.NumField() > 0 {
			trials = 60
		}
		for k := 0; k < trials; k++ {
			pv := reflect.New(t).Elem()
			fillOperand(pv, r, 0)
			ins, isIns := pv.Interface().(opcode.Instruction)
			if !isIns {
				break
			}
			var code []byte
			ins.Encode(&code)
			dec, used, ok := decodeOne(code)
			n++
			if !ok {
				return kinds, n, fmt.Sprintf("%#v: its own encoding %x cannot be decoded", ins, code)
			}
			if used != len(code) {
				return kinds, n, fmt.Sprintf("%#v: encoded to %d bytes, decoding consumed %d", ins, len(code), used)
			}
			if normaliseIns(dec) != normaliseIns(ins) {
				return kinds, n, fmt.Sprintf("%#v decodes to %#v (encoding %x)", ins, dec, code)
			}
			var code2 []byte
			dec.Encode(&code2)
			if string(code) != string(code2) {
				return kinds, n, fmt.Sprintf("%#v: re-encoding the decoded instruction gives %x, not %x", ins, code2, code)
			}
		}
	}
	return kinds, n, ""
}
