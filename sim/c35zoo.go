package main

// C35 "compile zoo": seeded multi-contract programs whose compilation has many places where an unordered collection could leak
// into the output — several contracts at the same address imported by separate import declarations, interfaces (declared in
// other programs) with pre/post conditions that refer to imported enums, functions and types and are inherited by implementations
// in third programs, default functions, many globals, nested declarations, entitlements, attachments, closures, switches, loops.
// The same history is compiled from scratch several times in one process (fresh node, cold cache: Go re-randomises every map
// iteration) and in every worker process; all renderings must be identical.

import (
	"fmt"
	"strings"

	"github.com/onflow/cadence/runtime"
)

type czContract struct {
	Name string
	Addr uint64
	Src  string
}

type czWorld struct {
	Contracts []czContract
	Tx        string
	Script    string
}

func genCompileZoo(seed uint64) czWorld {
	r := NewRng(seed ^ 0x350035)
	var w czWorld
	addrs := []uint64{0x11, 0x12}
	nLeaf := 2 + r.Intn(4)
	type leaf struct {
		name   string
		addr   uint64
		cases  int
		nfuncs int
	}
	var leaves []leaf
	for i := 0; i < nLeaf; i++ {
		// bias: most leaves live at the same address
		a := addrs[0]
		if r.Chance(0.25) {
			a = addrs[1]
		}
		l := leaf{name: fmt.Sprintf("%s%d", []string{"En", "Zq", "Ab", "Mx"}[r.Intn(4)], i), addr: a, cases: 2 + r.Intn(4), nfuncs: 1 + r.Intn(4)}
		leaves = append(leaves, l)
		var sb strings.Builder
		fmt.Fprintf(&sb, "access(all) contract %s {\n", l.name)
		for _, en := range []string{"Color", "Shape"} {
			fmt.Fprintf(&sb, "    access(all) enum %s: UInt8 {\n", en)
			for c := 0; c < l.cases; c++ {
				fmt.Fprintf(&sb, "        access(all) case c%d\n", c)
			}
			sb.WriteString("    }\n")
		}
		for f := 0; f < l.nfuncs; f++ {
			fmt.Fprintf(&sb, "    access(all) view fun f%d(_ x: Int): Int { return x + %d }\n", f, f+i)
		}
		fmt.Fprintf(&sb, "    access(all) entitlement Ent%d\n", i)
		sb.WriteString("    access(all) entitlement EA\n    access(all) entitlement EB\n    access(all) struct interface IA {}\n    access(all) struct interface IB {}\n    access(all) struct Both: IA, IB { init() {} }\n")
		sb.WriteString("    access(all) struct P {\n        access(all) let v: Int\n        init(_ v: Int) { self.v = v }\n        access(all) view fun get(): Int { return self.v }\n    }\n")
		sb.WriteString("    access(all) var total: Int\n    access(all) fun bump(): Int { self.total = self.total + 1; return self.total }\n    init() { self.total = 0 }\n}\n")
		w.Contracts = append(w.Contracts, czContract{l.name, l.addr, sb.String()})
	}
	// interface contracts: each imports >= 2 leaves with SEPARATE import declarations, in seeded order
	nIface := 1 + r.Intn(2)
	type iface struct {
		name string
		addr uint64
		uses []leaf
	}
	var ifaces []iface
	for k := 0; k < nIface; k++ {
		perm := make([]int, len(leaves))
		for i := range perm {
			perm[i] = i
		}
		for i := len(perm) - 1; i > 0; i-- {
			j := r.Intn(i + 1)
			perm[i], perm[j] = perm[j], perm[i]
		}
		n := 2 + r.Intn(len(leaves)-1)
		var uses []leaf
		for _, i := range perm[:n] {
			uses = append(uses, leaves[i])
		}
		it := iface{name: fmt.Sprintf("If%d", k), addr: addrs[r.Intn(2)], uses: uses}
		ifaces = append(ifaces, it)
		var sb strings.Builder
		for _, u := range uses {
			fmt.Fprintf(&sb, "import %s from 0x%x\n", u.name, u.addr)
		}
		fmt.Fprintf(&sb, "access(all) contract %s {\n", it.name)
		conds := func(kw string) {
			fmt.Fprintf(&sb, "            %s {\n", kw)
			for ui, u := range uses {
				switch (ui + k) % 3 {
				case 0:
					fmt.Fprintf(&sb, "                %s.f0(x) >= x: \"%s-%s\"\n", u.name, kw, u.name)
				case 1:
					fmt.Fprintf(&sb, "                %s.Color.c1.rawValue == 1: \"%s-%s\"\n", u.name, kw, u.name)
				default:
					fmt.Fprintf(&sb, "                %s.f0(x) - x >= 0 && %s.Shape.c0.rawValue == 0 && %s.Color.c0 != %s.Color.c1: \"%s-%s\"\n", u.name, u.name, u.name, u.name, kw, u.name)
				}
			}
			sb.WriteString("            }\n")
		}
		sb.WriteString("    access(all) struct interface Checked {\n        access(all) fun run(_ x: Int): Int {\n")
		conds("pre")
		conds("post")
		sb.WriteString("        }\n")
		fmt.Fprintf(&sb, "        access(all) fun dflt%d(): Int { return %s.f0(1) + Int(%s.Color.c1.rawValue) }\n    }\n", k, uses[0].name, uses[1].name)
		sb.WriteString("    access(all) resource interface RChecked {\n        access(all) fun work(_ x: Int): Int {\n")
		conds("pre")
		sb.WriteString("        }\n    }\n")
		fmt.Fprintf(&sb, "    access(all) fun helper(_ x: Int): Int { return %s.bump() + x }\n", uses[len(uses)-1].name)
		sb.WriteString("    init() {}\n}\n")
		w.Contracts = append(w.Contracts, czContract{it.name, it.addr, sb.String()})
	}
	// implementation contract: imports only the interface contracts
	var sb strings.Builder
	for _, it := range ifaces {
		fmt.Fprintf(&sb, "import %s from 0x%x\n", it.name, it.addr)
	}
	sb.WriteString("access(all) contract Impl {\n    access(all) entitlement Go\n")
	var confS, confR []string
	for _, it := range ifaces {
		confS = append(confS, it.name+".Checked")
		confR = append(confR, it.name+".RChecked")
	}
	fmt.Fprintf(&sb, "    access(all) struct S: %s {\n        access(all) var n: Int\n        init() { self.n = 0 }\n        access(all) fun run(_ x: Int): Int { return x * 2 + 1 }\n    }\n", strings.Join(confS, ", "))
	fmt.Fprintf(&sb, "    access(all) resource R: %s {\n        access(all) var n: Int\n        init() { self.n = 0 }\n        access(all) fun work(_ x: Int): Int { self.n = self.n + x; return self.n }\n        access(Go) fun secret(): Int { return 42 }\n    }\n", strings.Join(confR, ", "))
	sb.WriteString("    access(all) attachment Tag for R {\n        access(all) let label: String\n        init(_ l: String) { self.label = l }\n        access(all) fun both(): String { return self.label.concat(base.n.toString()) }\n    }\n")
	sb.WriteString("    access(all) fun mk(): @R { return <- create R() }\n")
	l0 := leaves[0]
	nfun := 2 + r.Intn(5)
	for f := 0; f < nfun; f++ {
		switch r.Intn(5) {
		case 0:
			fmt.Fprintf(&sb, "    access(all) fun g%d(_ x: Int): Int {\n        var s = 0\n        var i = 0\n        while i < x { if i %% 3 == 0 { i = i + 1; continue }; s = s + i; i = i + 1; if s > 100 { break } }\n        return s\n    }\n", f)
		case 1:
			fmt.Fprintf(&sb, "    access(all) fun g%d(_ x: Int): Int {\n        switch x %% 4 {\n        case 0: return 10\n        case 1: return %s.helper(x)\n        default: return -1\n        }\n    }\n", f, ifaces[0].name)
		case 2:
			fmt.Fprintf(&sb, "    access(all) fun g%d(_ x: Int): Int {\n        let add = fun (_ a: Int, _ b: Int): Int { return a + b + x }\n        let xs = [1, 2, 3].map(fun (_ e: Int): Int { return add(e, 1) })\n        var t = 0\n        for e in xs { t = t + e }\n        return t\n    }\n", f)
		case 3:
			fmt.Fprintf(&sb, "    access(all) fun g%d(_ x: Int): Int {\n        let d: {String: Int?} = {\"a\": x, \"b\": nil}\n        let y = d[\"a\"] ?? nil\n        if let z = y { return z + ((d[\"b\"] ?? 7) ?? 9) }\n        return (x as AnyStruct) as? Int ?? 0\n    }\n", f)
		default:
			fmt.Fprintf(&sb, "    access(all) fun g%d(_ x: Int): Int {\n        let r <- attach Tag(\"t\") to <- self.mk()\n        let n = r.work(x) + r[Tag]!.both().length\n        destroy r\n        return n\n    }\n", f)
		}
	}
	sb.WriteString("    init() {}\n}\n")
	w.Contracts = append(w.Contracts, czContract{"Impl", 0x12, sb.String()})
	// the same intersection and the same entitlement set are written in one order in this contract and in the other order in the
	// transaction (Impl itself imports only the interface contracts, so that the leaves stay transitive imports there)
	var ob strings.Builder
	fmt.Fprintf(&ob, "import %s from 0x%x\naccess(all) contract Ord {\n", l0.name, l0.addr)
	fmt.Fprintf(&ob, "    access(all) fun orders(): [Type] {\n        let v: {%s.IA, %s.IB} = %s.Both()\n        let p = %s.P(1)\n        let r = &p as auth(%s.EA, %s.EB) &%s.P\n        return [v.getType(), r.getType(), Type<{%s.IA, %s.IB}>(), Type<auth(%s.EA, %s.EB) &%s.P>()]\n    }\n    init() {}\n}\n", l0.name, l0.name, l0.name, l0.name, l0.name, l0.name, l0.name, l0.name, l0.name, l0.name, l0.name, l0.name)
	w.Contracts = append(w.Contracts, czContract{"Ord", 0x12, ob.String()})
	// transaction and script using everything
	var tx strings.Builder
	tx.WriteString("import Impl from 0x12\nimport Ord from 0x12\n")
	for _, l := range leaves {
		if r.Chance(0.6) {
			fmt.Fprintf(&tx, "import %s from 0x%x\n", l.name, l.addr)
		}
	}
	// the leaf is always imported by the transaction (it names its types in the other order)
	if !strings.Contains(tx.String(), "import "+l0.name+" from") {
		fmt.Fprintf(&tx, "import %s from 0x%x\n", l0.name, l0.addr)
	}
	body := fmt.Sprintf("        let rev: {%s.IB, %s.IA} = %s.Both()\n        let pp = %s.P(2)\n        let rr = &pp as auth(%s.EB, %s.EA) &%s.P\n        log(rev.getType().identifier)\n        log(rr.getType().identifier)\n        log(Type<{%s.IB, %s.IA}>().identifier)\n        log(Ord.orders().length)\n", l0.name, l0.name, l0.name, l0.name, l0.name, l0.name, l0.name, l0.name, l0.name)
	body += "        let s = Impl.S()\n        log(s.run(3))\n        log(s.dflt0())\n        let r <- Impl.mk()\n        log(r.work(5))\n        destroy r\n"
	for f := 0; f < nfun; f++ {
		body += fmt.Sprintf("        log(Impl.g%d(%d))\n", f, 3+f)
	}
	w.Tx = tx.String() + "transaction {\n    prepare(a: &Account) {\n" + body + "    }\n}\n"
	w.Script = tx.String() + "access(all) fun main(): Int {\n" + body + "        return s.run(1)\n}\n"
	return w
}

// compileZoo compiles the zoo `reps` times from scratch per engine and compares all renderings; returns what compileHistory returns.
func compileZoo(seed uint64, reps int) c35Result {
	var res c35Result
	w := genCompileZoo(seed)
	viol := func(oracle, key, f string, a ...any) {
		res.Violations = append(res.Violations, Violation{Property: "C35", Oracle: oracle, Key: key, Detail: fmt.Sprintf("compile zoo seed %d: ", seed) + fmt.Sprintf(f, a...)})
	}
	var digest strings.Builder
	for _, engine := range []string{"vm", "vmpeep"} {
		var first map[string]string
		var firstLogs string
		for rep := 0; rep < reps; rep++ {
			n := NewNode(NodeConfig{Name: fmt.Sprintf("%s-%d", engine, rep), Engine: engine, Cache: []string{"cold", "warm"}[rep%2], EnvReuse: rep%3 != 0}, NewWorld())
			var logs []string
			ok := true
			for ci, c := range w.Contracts {
				t := n.Exec(ExecReq{Kind: "tx", Source: DeployTx(c.Name, c.Src), Signers: []uint64{c.Addr}, Salt: uint64(ci)}, true)
				if t.Class != "ok" {
					viol("zoo.builds", "zoo-build", "deploying %s failed on %s: %s %s\n%s", c.Name, engine, t.ErrType, clip(fmt.Sprint(t.Err), 1500), c.Src)
					ok = false
					break
				}
			}
			if !ok {
				return res
			}
			rendered := map[string]string{}
			collect := func() {
				for loc, e := range n.H.Programs {
					if e == nil || e.p == nil {
						continue
					}
					if ip := runtime.VerifCompiledProgram(e.p); ip != nil {
						rendered[loc.String()] = renderProgram(ip)
						if rep == 0 {
							cnt, problem := roundTrip(ip)
							res.Instr += cnt
							if problem != "" {
								viol("encoding.round-trip", "round-trip", "%s on %s: %s", loc, engine, problem)
							}
						}
					}
				}
			}
			t := n.Exec(ExecReq{Kind: "tx", Source: w.Tx, Signers: []uint64{1}, Salt: 100}, true)
			if t.Class != "ok" {
				viol("zoo.builds", "zoo-build", "the zoo transaction failed on %s: %s %s\n%s", engine, t.ErrType, clip(fmt.Sprint(t.Err), 1500), w.Tx)
				return res
			}
			logs = append(logs, t.Logs...)
			collect()
			t = n.Exec(ExecReq{Kind: "script", Source: w.Script, Salt: 101}, false)
			if t.Class != "ok" {
				viol("zoo.builds", "zoo-build", "the zoo script failed on %s: %s %s", engine, t.ErrType, clip(fmt.Sprint(t.Err), 1500))
				return res
			}
			collect()
			if rep == 0 {
				first, firstLogs = rendered, fmt.Sprint(logs)
				res.Programs += len(rendered)
				for _, loc := range sortedStringKeys(rendered) {
					digest.WriteString(loc)
					digest.WriteString(rendered[loc])
				}
				continue
			}
			if fmt.Sprint(logs) != firstLogs {
				viol("compile.deterministic", "zoo-logs", "%s: repetition %d logs %v, repetition 0 logged %s", engine, rep, logs, firstLogs)
			}
			for loc, ra := range first {
				if rb, ok := rendered[loc]; ok && ra != rb {
					viol("compile.deterministic", "compile-differs", "%s compiled differently by two fresh %s nodes (repetitions 0 and %d):\n%s", loc, engine, rep, lineDiff(ra, rb))
					return res
				}
			}
		}
	}
	res.Digest = h64([]byte(digest.String()))
	return res
}
