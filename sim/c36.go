package main

// C36: concurrent checking / execution behaves like sequential runs.
//   Mode S (simulated, replayable): W workers run their scripts against their own ledger snapshot but share one program
//     cache and all of Cadence's process-wide state; every runtime.Interface callback is a yield point at which a seeded
//     scheduler releases exactly one worker, so the interleaving (at callback granularity) is a function of the seed.
//   Mode R (race detector): the same workload on free-running goroutines in a fresh `-race` process whose caches are cold
//     (the world is built by the parent and handed over as data, so nothing is checked or executed before the workers start).
// Oracle in both modes: every program's outcome equals its outcome when run alone; mode R additionally: no race report,
// no crash.

import (
	"bytes"
	"encoding/gob"
	"encoding/hex"
	"encoding/json"
	"fmt"
	"os"
	"os/exec"
	"path/filepath"
	goruntime "runtime"
	"strings"
	"sync"
	"time"

	"github.com/onflow/cadence/common"
	"github.com/onflow/cadence/runtime"
)

const concSrc = `
access(all) contract Conc {
    access(all) entitlement E1
    access(all) entitlement E2
    access(all) entitlement F1
    access(all) entitlement F2
    access(all) entitlement F3
    access(all) entitlement mapping M {
        E1 -> F1
        E1 -> F3
        E2 -> F2
    }
    access(all) entitlement mapping N {
        E1 -> F2
        E2 -> F1
        E2 -> F3
    }

    access(all) struct interface I { access(all) fun id(): Int }
    access(all) struct interface J { access(all) fun tag(): String { return "j" } }

    access(all) struct Inner: I, J {
        access(all) var v: Int
        init(_ v: Int) { self.v = v }
        access(all) fun id(): Int { return self.v }
        access(F1) fun f1(): Int { return self.v + 1 }
        access(F2) fun f2(): Int { return self.v + 2 }
        access(F3) fun f3(): Int { return self.v + 3 }
    }
    access(all) struct Outer {
        access(mapping M) var inner: Inner
        access(mapping N) var other: Inner
        access(all) var items: {String: [Int]}
        init(_ v: Int) { self.inner = Inner(v); self.other = Inner(v * 10); self.items = {"a": [v]} }
    }
    access(all) resource Res {
        access(all) event ResourceDestroyed(v: Int = self.v)
        access(all) var v: Int
        access(mapping M) var inner: Inner
        init(_ v: Int) { self.v = v; self.inner = Inner(v) }
    }
    access(all) attachment Att for Res {
        access(all) fun twice(): Int { return base.v * 2 }
    }
    access(all) struct interface K {
        access(E1) fun k1(): Int
        access(E2 | F1) fun k2(): Int
        access(mapping N) var inner: Inner
    }
    access(all) struct KImpl: K {
        access(mapping N) var inner: Inner
        access(all) var v: Int
        init(_ v: Int) { self.v = v; self.inner = Inner(v) }
        access(E1) fun k1(): Int { return self.v + 11 }
        access(E2 | F1) fun k2(): Int { return self.v + 12 }
    }
    // container-typed fields of every container kind: the member tables of these (shared) types are built lazily on first use,
    // by value and through references
    access(all) struct Holder {
        access(all) var pair: [Inner; 2]
        access(all) var list: [Inner]
        access(all) var table: {String: Inner}
        access(all) var opt: [Int; 3]?
        init(_ v: Int) { self.pair = [Inner(v), Inner(v + 1)]; self.list = [Inner(v)]; self.table = {"k": Inner(v)}; self.opt = [v, v, v] }
    }
    access(all) event Done(n: Int, s: String, xs: [Int])
    access(all) fun mk(_ v: Int): @Res { return <- create Res(v) }
    access(all) fun done(_ n: Int) { emit Done(n: n, s: n.toString(), xs: [n, n]) }
    init() {}
}
`

// c36Script renders the k-th script of worker g (templates x parameters; distinct sources force their own parse + check).
func c36Script(r *Rng, g, k int) string { return c36ScriptT(r, g, k, -1) }

const c36Templates = 16

// c36ScriptT: tmpl >= 0 forces the template (the same random draws are consumed either way).
func c36ScriptT(r *Rng, g, k, tmpl int) string {
	a, b := r.Intn(50)+1, r.Intn(50)+1
	t := r.Intn(c36Templates)
	if tmpl >= 0 {
		t = tmpl % c36Templates
	}
	switch t {
	case 0:
		return fmt.Sprintf(`import Conc from 0x1
access(all) fun main(): [Int] {
    let o = Conc.Outer(%d)
    let r = &o as auth(Conc.E1, Conc.E2) &Conc.Outer
    let i = r.inner
    let j = r.other
    return [i.f1(), i.f2(), i.f3(), j.f1(), j.f2(), j.f3(), %d]
}`, a, g*100+k)
	case 1:
		return fmt.Sprintf(`import Conc from 0x1
access(all) fun main(): [Int] {
    let o = Conc.Outer(%d)
    let r1 = &o as auth(Conc.E1) &Conc.Outer
    let r2 = &o as auth(Conc.E2) &Conc.Outer
    return [r1.inner.f1(), r1.inner.f3(), r2.inner.f2(), r1.other.f2(), r2.other.f1(), %d]
}`, a, g*100+k)
	case 2:
		return fmt.Sprintf(`import Conc from 0x1
access(all) fun main(): [AnyStruct] {
    let x: AnyStruct = Conc.Inner(%d)
    let asI = x as? {Conc.I}
    let asJ = x as? {Conc.J}
    let both = x as? {Conc.I, Conc.J}
    return [asI?.id(), asJ?.tag(), both != nil, x.isInstance(Type<Conc.Inner>()), x.getType().identifier, Type<{Conc.I, Conc.J}>().identifier, %d]
}`, a, g*100+k)
	case 3:
		return fmt.Sprintf(`import Conc from 0x1
import World from 0x1
access(all) fun main(): [AnyStruct] {
    let acct = getAuthAccount<auth(Storage, Capabilities, Contracts, Keys, Inbox) &Account>(0x1)
    let s = acct.storage
    let c = acct.capabilities
    let names = acct.contracts.names
    let r <- Conc.mk(%d)
    let r2 <- attach Conc.Att() to <-r
    let t = r2[Conc.Att]!.twice()
    let ref = &r2 as auth(Conc.E1) &Conc.Res
    let f = ref.inner.f1()
    destroy r2
    Conc.done(%d)
    return [t, f, names.length, s.used > 0, World.counter, acct.keys.count, %d]
}`, a, b, g*100+k)
	case 4:
		return fmt.Sprintf(`access(all) fun main(): [AnyStruct] {
    let n: UInt128 = %d
    let m: Int64 = %d
    let f: UFix64 = 1.5
    let w: Word16 = 7
    let s = n.toString().concat(m.toString()).concat(f.toString()).concat(w.toString())
    let d: {String: [Int]} = {"a": [1, 2], "b": []}
    d["a"]!.append(%d)
    let u8s: [UInt8] = [1, 2]
    return [s, n.getType().identifier, m.isInstance(Type<Int64>()), d.keys.length, d["a"]!.length, "x".utf8, u8s.toConstantSized<[UInt8; 2]>() != nil]
}`, a, b, g*100+k)
	case 5:
		return fmt.Sprintf(`import World from 0x1
access(all) fun main(): [AnyStruct] {
    let acct = getAuthAccount<auth(Storage) &Account>(0x2)
    let r = acct.storage.borrow<auth(World.X) &World.R>(from: /storage/r)
    let s = World.mkS(%d, [1, 2], {"k": %d}, [], "o", nil)
    let t <- World.make(%d)
    let u = t.uuid > 0
    destroy t
    return [r?.secret(), r?.id, s.a, s.xs.length, u, acct.storage.storagePaths.length]
}`, a, b, g*100+k)
	case 6:
		// a program that does not type check (errors must be the same as alone)
		return fmt.Sprintf(`import Conc from 0x1
access(all) fun main(): Int {
    let o = Conc.Outer(%d)
    let r = &o as auth(Conc.E1) &Conc.Outer
    return r.inner.f2() + %d
}`, a, g*100+k)
	case 7:
		// a program that fails at run time
		return fmt.Sprintf(`import Conc from 0x1
access(all) fun main(): Int {
    let xs: [Int] = [%d]
    let x: AnyStruct = Conc.Inner(%d)
    let y = x as! {Conc.I}
    return xs[y.id() + %d]
}`, a, b, k)
	case 8:
		return fmt.Sprintf(`import Conc from 0x1
access(all) fun main(): [AnyStruct] {
    let caps = getAccount(0x2).capabilities
    let c = caps.get<&AnyResource>(/public/nothing)
    let ty = ReferenceType(entitlements: ["A.0000000000000001.Conc.E1"], type: Type<Conc.Outer>())
    let ot = OptionalType(Type<Conc.Inner>())
    let dt = DictionaryType(key: Type<String>(), value: Type<[Conc.Inner]>())
    return [c.check(), ty?.identifier, ot.identifier, dt?.identifier, CompositeType("A.0000000000000001.Conc.Res")?.identifier, %d]
}`, g*100+k)
	case 10:
		// `result` of a resource-returning function with a postcondition is fully entitled: supported entitlements of a shared type
		return fmt.Sprintf(`import Conc from 0x1
access(all) fun mk(_ v: Int): @Conc.Res {
    post { result.v == v: "v"; result.inner.v == v: "inner" }
    return <- Conc.mk(v)
}
access(all) fun main(): [Int] {
    let r <- mk(%d)
    let v = r.v
    var n = 0
    r.forEachAttachment(fun (a: &AnyResourceAttachment) { n = n + 1 })
    let r2 <- attach Conc.Att() to <-r
    r2.forEachAttachment(fun (a: &AnyResourceAttachment) { n = n + 10 })
    destroy r2
    return [v, n, %d]
}`, a, g*100+k)
	case 11:
		// entitlements through an interface / intersection type of a shared contract
		return fmt.Sprintf(`import Conc from 0x1
access(all) fun main(): [AnyStruct] {
    let x = Conc.KImpl(%d)
    let r = &x as auth(Conc.E1, Conc.E2) &{Conc.K}
    let a = r.k1()
    let b = r.k2()
    let i = r.inner
    let y: AnyStruct = x
    let d = y as? {Conc.K}
    let rr = &x as auth(Conc.E2) &Conc.KImpl
    return [a, b, i.f2(), i.f1(), i.f3(), d != nil, r.getType().identifier, rr.k2(), rr.inner.f1(), %d]
}`, a, g*100+k)
	case 14:
		// container members THROUGH REFERENCES to fields of an imported composite (reference-specific member types)
		return fmt.Sprintf(`import Conc from 0x1
access(all) fun main(): [Int] {
    let h = Conc.Holder(%d)
    let r = &h as &Conc.Holder
    let rp = r.pair.reverse()
    let rl = r.list.reverse()
    let first: &Conc.Inner = rp[0]
    let ks = r.table.keys
    let m = r.pair.map(fun (x: &Conc.Inner): Int { return x.id() })
    let f = r.list.filter(view fun (x: &Conc.Inner): Bool { return true })
    let vs = r.pair.toVariableSized()
    return [r.pair.length, rl.length, first.id(), ks.length, m[1], f.length, vs.length, r.opt?.length ?? 0, %d]
}`, a, g*100+k)
	case 15:
		// the same members BY VALUE
		return fmt.Sprintf(`import Conc from 0x1
access(all) fun main(): [Int] {
    let h = Conc.Holder(%d)
    let rp: [Conc.Inner; 2] = h.pair.reverse()
    let rl: [Conc.Inner] = h.list.reverse()
    let first: Conc.Inner = rp[0]
    let m = h.pair.map(fun (x: Conc.Inner): Int { return x.id() })
    let f: [Conc.Inner] = h.list.filter(view fun (x: Conc.Inner): Bool { return true })
    let vs: [Conc.Inner] = h.pair.toVariableSized()
    let vals: [Conc.Inner] = h.table.values
    let o: [Int; 3] = h.opt!.reverse()
    return [h.pair.length, rl.length, first.id(), m[1], f.length, vs.length, vals.length, o[0], %d]
}`, b, g*100+k)
	case 13:
		// resources moved in branches, loops and optional bindings (the checker's per-branch resource tracking), optional chaining
		// and other metered type constructions inside conditionally evaluated code
		return fmt.Sprintf(`import World from 0x1
access(all) fun main(): [Int] {
    let out: [Int] = []
    let r <- World.make(%d)
    let q <- World.make(%d)
    var opt: @World.R? <- nil
    if r.id %% 2 == 0 {
        opt <-! r
    } else {
        let tmp <- r
        opt <-! tmp
    }
    var i = 0
    let arr: @[World.R] <- []
    while i < 3 {
        let t <- World.make(i)
        if i == 1 { arr.append(<- t) } else { destroy t }
        i = i + 1
    }
    if let got <- opt {
        out.append(got.id)
        let s: String? = got.id > 5 ? "big" : nil
        out.append(s?.length ?? 0)
        arr.append(<- got)
    } else {
        out.append(-1)
    }
    switch q.id %% 3 {
    case 0:
        let d: {String: [Int]}? = {"k": [q.id]}
        out.append(d?.length ?? 0)
        destroy q
    case 1:
        arr.append(<- q)
    default:
        let w <- q
        destroy w
    }
    out.append(arr.length)
    destroy arr
    out.append(%d)
    return out
}`, a, b, g*100+k)
	case 12:
		// members of built-in types (lazily initialised member resolvers), string / array / path / address functions
		return fmt.Sprintf(`access(all) fun main(): [AnyStruct] {
    let s = "h\u{e9}llo w\u{f6}rld %d"
    let parts = s.split(separator: " ")
    let xs: [UInt64] = [3, 1, %d]
    let m = xs.map(fun (x: UInt64): UInt64 { return x * 2 })
    let f = xs.filter(view fun (x: UInt64): Bool { return x > 1 })
    let p: StoragePath = /storage/foo
    let addr: Address = 0x1
    let c: Character = "a"
    let fx: Fix64 = -1.5
    let o: Int? = %d
    return [s.length, parts.length, s.toLower(), m, f.length, xs.reverse(), p.toString(), addr.toBytes(), c.utf8, fx.toString(),
        xs.contains(2), s.slice(from: 0, upTo: 3), o.map(fun (x: Int): Int { return x + 1 }), xs.toConstantSized<[UInt64; 3]>() != nil,
        String.join(parts, separator: "-"), UInt64.fromString("12"), Int.fromBigEndianBytes([1, 2]), InclusiveRange(1, 5).contains(3), %d]
}`, a, b, a+b, g*100+k)
	default:
		return fmt.Sprintf(`import Conc from 0x1
access(all) fun main(): [Int] {
    var acc: [Int] = []
    var i = 0
    while i < %d {
        let o = Conc.Outer(i)
        let r = &o as auth(Conc.E2) &Conc.Outer
        acc.append(r.inner.f2() + r.other.f3())
        i = i + 1
    }
    Conc.done(%d)
    return acc
}`, a%7+1, g*100+k)
	}
}

type c36Job struct {
	Seed      uint64 `json:"seed"`
	W         int    `json:"workers"`
	PerWorker int    `json:"scripts_per_worker"`
	Engine    string `json:"engine"`
	Mode      string `json:"mode"` // "S" | "R"
	MaxProcs  int    `json:"gomaxprocs,omitempty"`
	// Focus > 0: the first script of EVERY worker is an instance of template Focus-1 (distinct sources), so that all workers
	// reach the same cold lazily initialised caches of the shared types at the same time
	Focus int `json:"focus,omitempty"`
	// Aborts: before each of its scripts every worker also runs a doomed execution (a script of its own under a memory or computation
	// budget drawn from the job seed, so that it is aborted somewhere in parsing, checking, compiling or running). The doomed
	// executions are not compared; the regular scripts must still behave as when run alone, without any doomed neighbour.
	Aborts bool `json:"aborts,omitempty"`
}

func c36BaseWorld() *World {
	n := NewNode(NodeConfig{Name: "base", Engine: "interp", Cache: "warm", EnvReuse: true}, NewWorld())
	for i, r := range []ExecReq{
		{Kind: "tx", Source: DeployTx("World", WorldSrc), Signers: []uint64{1}},
		{Kind: "tx", Source: DeployTx("Conc", concSrc), Signers: []uint64{1}},
		{Kind: "tx", Source: `import World from 0x1
transaction { prepare(a: auth(Storage) &Account) { a.storage.save(<- World.make(5), to: /storage/r); a.storage.save([1, 2, 3], to: /storage/xs) } }`, Signers: []uint64{2}},
	} {
		r.Salt = uint64(i)
		if t := n.Exec(r, true); t.Err != nil {
			panic("harness: C36 base world: " + t.Err.Error())
		}
	}
	return n.H.W
}

type gobWorld struct {
	Ledger  map[string][]byte
	SlabIdx map[string]uint64
	Codes   map[string][]byte // "addrhex.name"
	UUID    uint64
}

func encodeWorld(w *World) []byte {
	g := gobWorld{Ledger: w.Ledger, SlabIdx: w.SlabIdx, Codes: map[string][]byte{}, UUID: w.UUID}
	for l, c := range w.Codes {
		g.Codes[fmt.Sprintf("%x.%s", l.Address[:], l.Name)] = c
	}
	var buf bytes.Buffer
	if err := gob.NewEncoder(&buf).Encode(g); err != nil {
		panic(err)
	}
	return buf.Bytes()
}

func decodeWorld(b []byte) *World {
	var g gobWorld
	if err := gob.NewDecoder(bytes.NewReader(b)).Decode(&g); err != nil {
		panic("harness: cannot decode world: " + err.Error())
	}
	w := NewWorld()
	w.Ledger, w.SlabIdx, w.UUID = g.Ledger, g.SlabIdx, g.UUID
	for k, c := range g.Codes {
		var a common.Address
		parts := strings.SplitN(k, ".", 2)
		ab, err := hex.DecodeString(parts[0])
		if err != nil {
			panic("harness: bad address in world file: " + parts[0])
		}
		copy(a[:], ab)
		w.Codes[common.AddressLocation{Address: a, Name: parts[1]}] = c
	}
	return w
}

// ---- shared program cache

type sharedEntry struct {
	loading bool
	done    bool
	aborted bool // the load was abandoned (the loading execution was aborted): waiters retry
	p       *runtime.Program
	err     error
	ch      chan struct{} // mode R: closed when the load ended one way or the other
}

type sharedCache struct {
	mu sync.Mutex
	m  map[runtime.Location]*sharedEntry
}

// ---- mode S scheduler

type sched struct {
	rng    *Rng
	wake   []chan struct{}
	parked chan int
	Log    []int
}

func (s *sched) yield(id int) {
	s.parked <- id
	<-s.wake[id]
}

type c36Outcome struct {
	Summaries [][]string // per worker, per script
	Schedule  []int
	Panics    []string
}

func c36Scripts(job c36Job) [][]string {
	r := NewRng(job.Seed)
	out := make([][]string, job.W)
	shared := c36Script(r, 99, 99) // one source that every worker also runs (same program, different locations)
	for g := 0; g < job.W; g++ {
		for k := 0; k < job.PerWorker; k++ {
			if k == 1 {
				out[g] = append(out[g], shared)
			} else if k == 0 && job.Focus > 0 {
				out[g] = append(out[g], c36ScriptT(r, g, k, job.Focus-1))
			} else if job.Aborts && k != 1 && r.Intn(2) == 0 {
				// after a doomed execution: a program that tracks resources through branches (the checker's pooled per-branch state)
				out[g] = append(out[g], c36ScriptT(r, g, k, 13))
			} else {
				out[g] = append(out[g], c36Script(r, g, k))
			}
		}
	}
	return out
}

func summaryOf(t *Transcript) string {
	msg := t.ErrMsg
	if strings.HasPrefix(t.ErrType, "*sema.CheckerError") && t.Err != nil {
		// checker errors: compare the complete error text (which errors, where), locations of scripts excluded
		msg = t.Err.Error()
	}
	return t.Summary() + "err=" + stripLocations(msg)
}

// stripLocations removes 64-hex-digit script location ids (they differ between workers by construction).
func stripLocations(s string) string {
	var sb strings.Builder
	run := 0
	b := []byte(s)
	start := 0
	for i := 0; i <= len(b); i++ {
		isHex := i < len(b) && ((b[i] >= '0' && b[i] <= '9') || (b[i] >= 'a' && b[i] <= 'f'))
		if isHex {
			run++
			continue
		}
		if run == 64 {
			sb.Write(b[start : i-64])
			sb.WriteString("<loc>")
			start = i
		}
		run = 0
	}
	sb.Write(b[start:])
	return sb.String()
}

// runConcurrent executes the job on W goroutines sharing one program cache.
func runConcurrent(base *World, job c36Job) c36Outcome {
	scripts := c36Scripts(job)
	out := c36Outcome{Summaries: make([][]string, job.W)}
	cache := &sharedCache{m: map[runtime.Location]*sharedEntry{}}
	var s *sched
	if job.Mode == "S" {
		s = &sched{rng: NewRng(job.Seed ^ 0x5ca1ab1e), parked: make(chan int)}
		for g := 0; g < job.W; g++ {
			s.wake = append(s.wake, make(chan struct{}))
		}
	}
	var wg sync.WaitGroup
	var pmu sync.Mutex
	start := make(chan struct{})
	for g := 0; g < job.W; g++ {
		wg.Add(1)
		go func(g int) {
			defer wg.Done()
			defer func() {
				if r := recover(); r != nil {
					pmu.Lock()
					out.Panics = append(out.Panics, fmt.Sprintf("worker %d: %v", g, r))
					pmu.Unlock()
				}
				if s != nil {
					s.parked <- -g - 1
				}
			}()
			if s != nil {
				<-s.wake[g]
			} else {
				<-start
			}
			n := NewNode(NodeConfig{Name: fmt.Sprintf("w%d", g), Engine: job.Engine, Cache: "warm", EnvReuse: true}, base.Clone())
			doomed := false
			n.H.SharedLoad = func(h *Host, loc runtime.Location, load func() (*runtime.Program, error)) (*runtime.Program, error, bool) {
				switch loc.(type) {
				case common.TransactionLocation, common.ScriptLocation:
					return nil, nil, false
				}
				if s != nil {
					// scheduler-level wait (no real lock is held while parked)
					for {
						e := cache.m[loc]
						if e == nil {
							e = &sharedEntry{loading: true}
							cache.m[loc] = e
							func() {
								defer func() {
									if r := recover(); r != nil {
										// the loading execution was aborted inside the load: nothing is cached
										e.aborted = true
										delete(cache.m, loc)
										panic(r)
									}
								}()
								e.p, e.err = load()
							}()
							if doomed && e.err != nil {
								// an error of a doomed execution may be its own limit: not cached for the others
								e.aborted = true
								delete(cache.m, loc)
								return e.p, e.err, true
							}
							e.done = true
							return e.p, e.err, true
						}
						for !e.done && !e.aborted {
							s.yield(g)
						}
						if e.done {
							return e.p, e.err, true
						}
					}
				}
				for {
					cache.mu.Lock()
					e := cache.m[loc]
					owner := false
					if e == nil {
						e = &sharedEntry{ch: make(chan struct{})}
						cache.m[loc] = e
						owner = true
					}
					cache.mu.Unlock()
					if owner {
						func() {
							defer func() {
								if r := recover(); r != nil {
									cache.mu.Lock()
									delete(cache.m, loc)
									cache.mu.Unlock()
									close(e.ch)
									panic(r)
								}
							}()
							e.p, e.err = load()
						}()
						if doomed && e.err != nil {
							cache.mu.Lock()
							delete(cache.m, loc)
							cache.mu.Unlock()
							close(e.ch)
							return e.p, e.err, true
						}
						cache.mu.Lock()
						e.done = true
						cache.mu.Unlock()
						close(e.ch)
						return e.p, e.err, true
					}
					<-e.ch
					cache.mu.Lock()
					done := e.done
					cache.mu.Unlock()
					if done {
						return e.p, e.err, true
					}
				}
			}
			if s != nil {
				n.H.Hook = func(h *Host, kind string) { s.yield(g) }
			}
			rd := NewRng(job.Seed ^ uint64(0xd00d*(g+1)))
			for k, src := range scripts[g] {
				if job.Aborts {
					site := []string{"mem", "comp"}[rd.Intn(2)]
					budget := rd.Intn(7000)
					if rd.Intn(2) == 0 {
						budget = rd.Intn(1500)
					}
					if site == "comp" {
						budget = rd.Intn(120)
					}
					dsrc := c36Script(rd, g, 100+k)
					if rd.Intn(4) != 0 {
						dsrc = c36ScriptT(rd, g, 100+k, 13)
						if site == "mem" {
							budget = rd.Intn(2500)
						}
					}
					doomed = true
					n.Exec(ExecReq{Kind: "script", Source: dsrc, Salt: uint64(g*1000 + 500 + k), Faults: []FaultSpec{{Site: site, Nth: budget, Mode: "sticky"}}}, false)
					doomed = false
				}
				t := n.Exec(ExecReq{Kind: "script", Source: src, Salt: uint64(g*1000 + k)}, false)
				out.Summaries[g] = append(out.Summaries[g], summaryOf(t))
			}
		}(g)
	}
	if s != nil {
		runnable := []int{}
		for g := 0; g < job.W; g++ {
			runnable = append(runnable, g)
		}
		for len(runnable) > 0 {
			i := s.rng.Intn(len(runnable))
			id := runnable[i]
			out.Schedule = append(out.Schedule, id)
			select {
			case s.wake[id] <- struct{}{}:
			case <-time.After(120 * time.Second):
				fmt.Fprintln(os.Stderr, "HARNESS-ERROR: C36 mode S scheduler stalled handing off to worker", id)
				os.Exit(2)
			}
			var r int
			select {
			case r = <-s.parked:
			case <-time.After(120 * time.Second):
				fmt.Fprintln(os.Stderr, "HARNESS-ERROR: C36 mode S: worker", id, "did not yield within 120 s")
				os.Exit(2)
			}
			if r < 0 {
				runnable = append(runnable[:i], runnable[i+1:]...)
			}
		}
	} else {
		close(start)
	}
	wg.Wait()
	return out
}

// runSolo executes every script alone: fresh node, own program cache, sequentially.
func runSolo(base *World, job c36Job) [][]string {
	scripts := c36Scripts(job)
	out := make([][]string, job.W)
	for g := range scripts {
		for k, src := range scripts[g] {
			n := NewNode(NodeConfig{Name: "solo", Engine: job.Engine, Cache: "warm", EnvReuse: true}, base.Clone())
			t := n.Exec(ExecReq{Kind: "script", Source: src, Salt: uint64(g*1000 + k)}, false)
			out[g] = append(out[g], summaryOf(t))
		}
	}
	return out
}

func c36Compare(job c36Job, conc c36Outcome, solo [][]string) []Violation {
	var vs []Violation
	for _, p := range conc.Panics {
		vs = append(vs, Violation{Property: "C36", Oracle: "no-crash", Node: job.Engine, Engine: job.Engine, Key: "panic", Detail: fmt.Sprintf("job %+v: a worker goroutine panicked outside the runtime API: %s", job, clip(p, 600))})
	}
	for g := range solo {
		for k := range solo[g] {
			if g >= len(conc.Summaries) || k >= len(conc.Summaries[g]) {
				continue
			}
			if conc.Summaries[g][k] != solo[g][k] {
				vs = append(vs, Violation{Property: "C36", Oracle: "same-as-alone", Node: job.Engine, Engine: job.Engine, Key: "outcome-differs",
					Detail: fmt.Sprintf("job %+v: script %d of worker %d behaves differently when run concurrently than alone:\n%s", job, k, g, lineDiff(solo[g][k], conc.Summaries[g][k]))})
				return vs
			}
		}
	}
	return vs
}

// c36Child is the entry point of the `-race` child process: `sim.race c36child <worldfile> <jobjson>`.
func c36Child(args []string) int {
	wb, err := os.ReadFile(args[0])
	if err != nil {
		fmt.Fprintln(os.Stderr, "harness:", err)
		return 2
	}
	var job c36Job
	if err := json.Unmarshal([]byte(args[1]), &job); err != nil {
		fmt.Fprintln(os.Stderr, "harness:", err)
		return 2
	}
	if job.MaxProcs > 0 {
		goruntime.GOMAXPROCS(job.MaxProcs)
	}
	base := decodeWorld(wb)
	conc := runConcurrent(base, job) // first, with cold process-wide caches
	solo := runSolo(base, job)
	vs := c36Compare(job, conc, solo)
	b, _ := json.Marshal(map[string]any{"violations": vs, "scripts": job.W * job.PerWorker})
	fmt.Println("C36RESULT " + string(b))
	return 0
}

func c36Worker(w *WorkerCtx) {
	known := loadKnown()
	base := c36BaseWorld()
	worldFile := filepath.Join(os.TempDir(), fmt.Sprintf("verif-c36-world-%d-%d.gob", os.Getpid(), w.Index))
	if err := os.WriteFile(worldFile, encodeWorld(base), 0o644); err != nil {
		panic(err)
	}
	defer os.Remove(worldFile)
	exe, _ := os.Executable()
	raceExe := filepath.Join(filepath.Dir(exe), "sim.race")
	if _, err := os.Stat(raceExe); err != nil {
		w.Emit(WorkResult{Kind: "harness-error", Msg: "bin/sim.race is missing (run ./build.sh race)"})
		return
	}
	emit := func(job c36Job, vs []Violation, extra map[string]int, report string) bool {
		res := WorkResult{Kind: "item", Seed: job.Seed, Stats: NewRunStats(), Shape: fmt.Sprintf("%s/%s/%d/%d/%d/%d", job.Mode, job.Engine, job.W, job.PerWorker, job.Focus, job.Seed), NonTrivial: true, Extra: extra}
		res.Stats.Execs = 2 * job.W * job.PerWorker
		res.Sample, _ = json.Marshal(job)
		stop := false
		for _, v := range vs {
			isKnown := false
			for _, kf := range known {
				if kf.Matches(v, job.Engine) {
					isKnown = true
				}
			}
			res.Violations = append(res.Violations, v)
			if !isKnown && res.Replay == "" {
				vc := v
				cu, _ := json.Marshal(map[string]any{"job": job, "report": report})
				rf := &ReplayFile{Property: "C36", Oracle: v.Oracle, VerifSeed: int64(w.Seed), Tier: w.Tier, Minimised: false, Kind: "c36", Custom: cu, Violation: &vc}
				res.Replay = WriteReplay(filepath.Join(outDir(), "replay"), rf, fmt.Sprintf("%s-%s-%d", job.Mode, job.Engine, job.Seed))
				res.Violations[0], res.Violations[len(res.Violations)-1] = res.Violations[len(res.Violations)-1], res.Violations[0]
				stop = true
			}
		}
		w.Emit(res)
		return stop
	}
	for k := 0; w.TimeLeft(); k++ {
		seed := w.Seed*1000003 + uint64(k)
		r := NewRng(seed)
		engine := []string{"interp", "vm"}[r.Intn(2)]
		job := c36Job{Seed: seed, W: 2 + r.Intn(15), PerWorker: 2 + r.Intn(3), Engine: engine}
		abortsExtra := "jobs_without_aborted_executions"
		if r.Intn(3) == 0 {
			job.Aborts = true
			abortsExtra = "jobs_with_aborted_executions"
		}
		if k%3 == 0 {
			// mode S, in this process
			job.Mode = "S"
			if job.W > 8 {
				job.W = 8
			}
			conc := runConcurrent(base, job)
			again := runConcurrent(base, job)
			extra := map[string]int{"modeS_jobs": 1, "modeS_context_switches": len(conc.Schedule), abortsExtra: 1}
			solo := runSolo(base, job)
			vs := c36Compare(job, conc, solo)
			if len(vs) == 0 {
				// a script that behaves differently from its solo run is a violation in whichever of the two runs it shows
				vs = c36Compare(job, again, solo)
			}
			if len(vs) == 0 && (fmt.Sprint(conc.Schedule) != fmt.Sprint(again.Schedule) || fmt.Sprint(conc.Summaries) != fmt.Sprint(again.Summaries)) {
				w.Emit(WorkResult{Kind: "harness-error", Msg: fmt.Sprintf("C36 mode S is not deterministic for seed %d", seed)})
				return
			}
			if emit(job, vs, extra, "") {
				return
			}
			continue
		}
		// mode R, in a fresh race-detector process with cold caches
		job.Mode = "R"
		job.MaxProcs = []int{2, 4, 16}[r.Intn(3)]
		focusExtra := "modeR_unfocused_jobs"
		if r.Intn(2) == 0 {
			job.Focus = 1 + r.Intn(c36Templates)
			focusExtra = fmt.Sprintf("modeR_focus_template_%d", job.Focus-1)
		}
		vs, report, herr := runRaceChild(raceExe, worldFile, job)
		if herr != "" {
			w.Emit(WorkResult{Kind: "harness-error", Msg: herr})
			return
		}
		if emit(job, vs, map[string]int{"modeR_jobs": 1, fmt.Sprintf("modeR_gomaxprocs_%d", job.MaxProcs): 1, focusExtra: 1, abortsExtra: 1}, report) {
			return
		}
	}
}

func runRaceChild(raceExe, worldFile string, job c36Job) (vs []Violation, report string, harnessErr string) {
	jb, _ := json.Marshal(job)
	cmd := exec.Command(raceExe, "c36child", worldFile, string(jb))
	cmd.Env = append(os.Environ(), "GORACE=halt_on_error=0 history_size=3")
	var stdout, stderr bytes.Buffer
	cmd.Stdout, cmd.Stderr = &stdout, &stderr
	done := make(chan error, 1)
	if err := cmd.Start(); err != nil {
		return nil, "", "cannot start race child: " + err.Error()
	}
	go func() { done <- cmd.Wait() }()
	var err error
	select {
	case err = <-done:
	case <-time.After(10 * time.Minute):
		cmd.Process.Kill()
		return nil, "", "race child did not finish within 10 minutes"
	}
	se := stderr.String()
	if strings.Contains(se, "WARNING: DATA RACE") {
		first := se[strings.Index(se, "WARNING: DATA RACE"):]
		if len(first) > 6000 {
			first = first[:6000]
		}
		site := raceSite(first)
		vs = append(vs, Violation{Property: "C36", Oracle: "no-data-race", Node: job.Engine, Engine: job.Engine, Key: "race:" + site,
			Detail: fmt.Sprintf("job %+v: the race detector reports %d data race(s); first report:\n%s", job, strings.Count(se, "WARNING: DATA RACE"), clip(first, 3500))})
		report = first
	}
	for _, line := range strings.Split(stdout.String(), "\n") {
		if strings.HasPrefix(line, "C36RESULT ") {
			var res struct {
				Violations []Violation `json:"violations"`
			}
			if json.Unmarshal([]byte(strings.TrimPrefix(line, "C36RESULT ")), &res) == nil {
				vs = append(vs, res.Violations...)
			}
			return vs, report, ""
		}
	}
	// no result line: the child crashed (e.g. fatal error: concurrent map writes) - that is a violation, not a harness error,
	// unless it never got going
	if strings.Contains(se, "harness:") || strings.Contains(se, "HARNESS-ERROR") {
		return nil, "", "race child: " + clip(se, 1500)
	}
	vs = append(vs, Violation{Property: "C36", Oracle: "no-crash", Node: job.Engine, Engine: job.Engine, Key: "child-crashed",
		Detail: fmt.Sprintf("job %+v: the process crashed (%v): %s", job, err, clip(se, 2500))})
	return vs, se, ""
}

// raceSite names the first Cadence frame of a race report (for known-findings matching).
func raceSite(report string) string {
	for _, line := range strings.Split(report, "\n") {
		line = strings.TrimSpace(line)
		if strings.HasPrefix(line, "github.com/onflow/cadence/") {
			if i := strings.Index(line, "("); i > 0 {
				line = line[:i]
			}
			return strings.TrimPrefix(line, "github.com/onflow/cadence/")
		}
	}
	return "?"
}

func init() {
	customReplays["c36"] = func(rf *ReplayFile) []Violation {
		var cu struct {
			Job c36Job `json:"job"`
		}
		if err := json.Unmarshal(rf.Custom, &cu); err != nil {
			panic("harness: bad c36 replay: " + err.Error())
		}
		base := c36BaseWorld()
		if cu.Job.Mode == "S" {
			return c36Compare(cu.Job, runConcurrent(base, cu.Job), runSolo(base, cu.Job))
		}
		// mode R does not replay a schedule: re-run the job up to 10 times in fresh race-detector processes
		exe, _ := os.Executable()
		raceExe := filepath.Join(filepath.Dir(exe), "sim.race")
		worldFile := filepath.Join(os.TempDir(), fmt.Sprintf("verif-c36-replay-%d.gob", os.Getpid()))
		os.WriteFile(worldFile, encodeWorld(base), 0o644)
		defer os.Remove(worldFile)
		for i := 0; i < 10; i++ {
			vs, _, herr := runRaceChild(raceExe, worldFile, cu.Job)
			if herr != "" {
				panic("harness: " + herr)
			}
			for _, v := range vs {
				if v.Oracle == rf.Oracle {
					return vs
				}
			}
		}
		return nil
	}
}
