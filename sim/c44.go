package main

// C44: stored-value encodings round-trip and stay stable across versions.
//
// Simulated fault: F12 "upgrade" — every node of the simulated network is stopped, its binary is replaced, and it restarts with
// nothing but the durable state (ledger registers, contract code, host counters) that the OLD binary wrote. The old binary is the
// pinned tree: `sim c44gen` is built against a worktree of the pinned commit (tools/gen_c44_corpus.sh) and writes corpus items
// under /verif/corpus/c44; the check opens every item with the tree under test and
//   1. decodes every slab and re-encodes it to the identical bytes, walks every storage domain of every account, CheckHealth;
//   2. compares a structural dump of every domain and ReadStored of every storage / public path with what the pinned tree saw;
//   3. runs the item's in-language verification script (zoo items) on both engines: decode(encode(v)) == v for every entry;
//   4. continues the recorded history on both engines from the old ledger and compares outcomes, observations and events with
//      the pinned tree's continuation, with oracle 1 after every commit.
// The live half (no corpus) runs fresh zoo histories on the tree under test: store, commit, restart, verify, plus the predicted
// canonical rendering of every entry that can be predicted without looking at the implementation.

import (
	"encoding/hex"
	"encoding/json"
	"flag"
	"fmt"
	"os"
	"path/filepath"
	"sort"
	"strings"
	"time"

	"github.com/onflow/cadence"
	"github.com/onflow/cadence/common"
	"github.com/onflow/cadence/interpreter"
	"github.com/onflow/cadence/runtime"
)

// ---------------------------------------------------------------------------------------------
// durable state on disk

type WorldDump struct {
	Ledger  map[string]string            `json:"ledger"` // hex(owner|key) -> hex(value)
	SlabIdx map[string]uint64            `json:"slab_idx"`
	Codes   map[string]string            `json:"codes"` // "0x1.World" -> source
	UUID    uint64                       `json:"uuid"`
	AcctID  map[string]uint64            `json:"acct_id"`
	Keys    map[string][]*runtime.AccountKey `json:"keys,omitempty"`
	NextAcc uint64                       `json:"next_acc"`
	Height  uint64                       `json:"height"`
}

func dumpWorld(w *World) *WorldDump {
	d := &WorldDump{Ledger: map[string]string{}, SlabIdx: map[string]uint64{}, Codes: map[string]string{}, AcctID: map[string]uint64{}, Keys: map[string][]*runtime.AccountKey{},
		UUID: w.UUID, NextAcc: w.NextAcc, Height: w.Height}
	for k, v := range w.Ledger {
		d.Ledger[hex.EncodeToString([]byte(k))] = hex.EncodeToString(v)
	}
	for k, v := range w.SlabIdx {
		d.SlabIdx[hex.EncodeToString([]byte(k))] = v
	}
	for l, c := range w.Codes {
		d.Codes[fmt.Sprintf("%s.%s", hex.EncodeToString(l.Address[:]), l.Name)] = string(c)
	}
	for a, v := range w.AcctID {
		d.AcctID[hex.EncodeToString(a[:])] = v
	}
	for a, v := range w.Keys {
		d.Keys[hex.EncodeToString(a[:])] = v
	}
	return d
}

func (d *WorldDump) World() *World {
	w := NewWorld()
	for k, v := range d.Ledger {
		kb, _ := hex.DecodeString(k)
		vb, _ := hex.DecodeString(v)
		w.Ledger[string(kb)] = vb
	}
	for k, v := range d.SlabIdx {
		kb, _ := hex.DecodeString(k)
		w.SlabIdx[string(kb)] = v
	}
	for l, c := range d.Codes {
		parts := strings.SplitN(l, ".", 2)
		ab, _ := hex.DecodeString(parts[0])
		var a common.Address
		copy(a[:], ab)
		w.Codes[common.AddressLocation{Address: a, Name: parts[1]}] = []byte(c)
	}
	for k, v := range d.AcctID {
		ab, _ := hex.DecodeString(k)
		var a common.Address
		copy(a[:], ab)
		w.AcctID[a] = v
	}
	for k, v := range d.Keys {
		ab, _ := hex.DecodeString(k)
		var a common.Address
		copy(a[:], ab)
		w.Keys[a] = v
	}
	w.UUID, w.NextAcc, w.Height = d.UUID, d.NextAcc, d.Height
	return w
}

// ---------------------------------------------------------------------------------------------
// structural dump of every storage domain (independent of in-language operations and of String() formats)

func dumpValue(inter *interpreter.Interpreter, v interpreter.Value) (s string) {
	switch v := v.(type) {
	case *interpreter.StorageCapabilityControllerValue:
		return fmt.Sprintf("StorageCapCon(id=%d, borrow=%s, target=%s)", uint64(v.CapabilityID), v.BorrowType.ID(), dumpValue(inter, v.TargetPath))
	case *interpreter.AccountCapabilityControllerValue:
		return fmt.Sprintf("AccountCapCon(id=%d, borrow=%s)", uint64(v.CapabilityID), v.BorrowType.ID())
	case *interpreter.PublishedValue:
		return fmt.Sprintf("Published(to=%s, %s)", hex.EncodeToString(v.Recipient[:]), dumpValue(inter, v.Value))
	case interpreter.NilValue:
		return "nil"
	}
	defer func() {
		if r := recover(); r != nil {
			s = fmt.Sprintf("<unexportable %T: %v>", v, r)
		}
	}()
	ev, err := runtime.ExportValue(v, inter)
	if err != nil {
		// not exportable: fall back to the static type and the walk of its children
		var kids []string
		v.Walk(inter, func(c interpreter.Value) { kids = append(kids, dumpValue(inter, c)) })
		return fmt.Sprintf("<%s %s>", v.StaticType(inter).ID(), strings.Join(kids, ", "))
	}
	return Canon(ev)
}

// DumpDomains renders every value of every domain of every account: "acct/domain/key" -> rendering.
func DumpDomains(w *World) (out map[string]string, err error) {
	out = map[string]string{}
	defer func() {
		if r := recover(); r != nil {
			err = fmt.Errorf("panic while dumping storage: %v", r)
		}
	}()
	h := oracleHost(w)
	rt := runtime.NewRuntime(runtime.Config{})
	var loc common.ScriptLocation
	storage, inter, e := rt.Storage(runtime.Context{Interface: h, Location: loc, Environment: runtime.NewScriptInterpreterEnvironment(runtime.Config{})})
	if e != nil {
		return nil, e
	}
	owners := map[string]bool{}
	for k := range w.Ledger {
		owners[strings.SplitN(k, "|", 2)[0]] = true
	}
	for o := range owners {
		var a common.Address
		copy(a[:], o)
		for _, d := range common.AllStorageDomains {
			m := storage.GetDomainStorageMap(inter, a, d, false)
			if m == nil {
				continue
			}
			it := m.Iterator()
			for {
				k, v := it.Next(inter)
				if k == nil {
					break
				}
				out[fmt.Sprintf("%x/%s/%v", a[:], d.Identifier(), k)] = dumpValue(inter, v)
			}
		}
	}
	return out, nil
}

func readPath(w *World, a uint64, domain common.PathDomain, id string) (s string, err error) {
	defer func() {
		if r := recover(); r != nil {
			err = fmt.Errorf("panic: %v", r)
		}
	}()
	h := oracleHost(w)
	rt := runtime.NewRuntime(runtime.Config{})
	var loc common.ScriptLocation
	v, err := rt.ReadStored(addr(a), cadence.Path{Domain: domain, Identifier: id}, runtime.Context{Interface: h, Location: loc, Environment: runtime.NewScriptInterpreterEnvironment(runtime.Config{})})
	if err != nil {
		return "", err
	}
	return Canon(v), nil
}

// readAllPaths: ReadStored of every key of the storage and public domains of every account: "acct/domain/id" -> canon
func readAllPaths(w *World) (map[string]string, error) {
	rep := CheckHealth(w)
	if rep.Err != "" {
		return nil, fmt.Errorf("%s", rep.Err)
	}
	out := map[string]string{}
	for ad, keys := range rep.Paths {
		var a uint64
		var dom string
		parts := strings.SplitN(ad, "/", 2)
		fmt.Sscanf(parts[0], "%d", &a)
		dom = parts[1]
		var pd common.PathDomain
		switch dom {
		case "storage":
			pd = common.PathDomainStorage
		case "public":
			pd = common.PathDomainPublic
		default:
			continue
		}
		for _, k := range keys {
			s, err := readPath(w, a, pd, k)
			if err != nil {
				s = "<error: " + firstLine(err.Error()) + ">"
			}
			out[fmt.Sprintf("%d/%s/%s", a, dom, k)] = s
		}
	}
	return out, nil
}

// ---------------------------------------------------------------------------------------------
// corpus items

type ContStep struct {
	Kind   string  `json:"kind"` // "exec" | "block"
	Req    ExecReq `json:"req"`
	Class  string  `json:"class"`
	ErrType string `json:"err_type,omitempty"`
	Obs    []string `json:"obs,omitempty"`
	Events []string `json:"events,omitempty"`
	Logs   []string `json:"logs,omitempty"`
	Result string  `json:"result,omitempty"`
	Committed bool `json:"committed"`
}

type LedgerItem struct {
	Name      string            `json:"name"`
	Kind      string            `json:"kind"` // "zoo" | "plan"
	Seed      uint64            `json:"seed"`
	WrittenBy string            `json:"written_by"` // git revision of the tree that wrote the ledger
	Engine    string            `json:"engine"`     // engine of the node that wrote it
	World     *WorldDump        `json:"world"`
	Domains   map[string]string `json:"domains"`    // DumpDomains as seen by the writing tree
	Paths     map[string]string `json:"paths"`      // readAllPaths as seen by the writing tree
	Predicted map[string]string `json:"predicted,omitempty"` // zoo: storage path -> predicted rendering
	Verify    string            `json:"verify,omitempty"`    // zoo: verification script (must return [])
	Kinds     map[string]int    `json:"kinds,omitempty"`     // zoo: value kinds in this ledger
	Cont      []ContStep        `json:"cont,omitempty"`      // continuation of the history as executed by the writing tree
}

func corpusDir() string { return filepath.Join(verifDir(), "corpus", "c44") }

func loadCorpus() ([]*LedgerItem, error) {
	files, _ := filepath.Glob(filepath.Join(corpusDir(), "*.json"))
	sort.Strings(files)
	var items []*LedgerItem
	for _, f := range files {
		b, err := os.ReadFile(f)
		if err != nil {
			return nil, err
		}
		var it LedgerItem
		if err := json.Unmarshal(b, &it); err != nil {
			return nil, fmt.Errorf("%s: %v", f, err)
		}
		items = append(items, &it)
	}
	return items, nil
}

// ---------------------------------------------------------------------------------------------
// zoo histories (used by the generator on the pinned tree and by the live half on the tree under test)

type zooRun struct {
	Seed    uint64
	Engine  string
	W       *World
	Entries []ZooEntry // entries still stored at the end
	Verify  string
	V       []Violation
	Execs   int
}

func zooViolation(oracle, key, f string, a ...any) Violation {
	return Violation{Property: "C44", Oracle: oracle, Key: key, Detail: fmt.Sprintf(f, a...)}
}

// runZoo executes one zoo history on a fresh node: deploy, store (2-4 transactions), churn, (restart), verify.
func runZoo(seed uint64, engine string) *zooRun {
	zr := &zooRun{Seed: seed, Engine: engine}
	r := NewRng(seed ^ 0x200)
	n := NewNode(NodeConfig{Name: "zoo", Engine: engine, Cache: "warm", EnvReuse: r.Chance(0.5)}, NewWorld())
	exec := func(req ExecReq, what string) *Transcript {
		zr.Execs++
		req.Salt = uint64(zr.Execs)
		t := n.Exec(req, true)
		if t.Class != "ok" {
			zr.V = append(zr.V, zooViolation("zoo.execution", "zoo-exec:"+what, "%s failed on %s: class=%s type=%s %s", what, engine, t.Class, t.ErrType, clip(fmt.Sprint(t.Err), 2500)))
			zr.V[len(zr.V)-1].Engine = engine
		}
		return t
	}
	if t := exec(ExecReq{Kind: "tx", Source: DeployTx("Zoo", zooSrc), Signers: []uint64{ZooAddr}}, "deploy"); t.Class != "ok" {
		return zr
	}
	es := GenZoo(seed)
	// split into 2..4 store transactions; keep entries that share local state (capability family) in order
	k := 2 + r.Intn(3)
	per := (len(es) + k - 1) / k
	for i := 0; i < len(es); i += per {
		j := min(i+per, len(es))
		if t := exec(ExecReq{Kind: "tx", Source: zooStoreTx(es[i:j]), Signers: []uint64{ZooOwner}}, fmt.Sprintf("store[%d:%d]", i, j)); t.Class != "ok" {
			return zr
		}
		if r.Chance(0.3) {
			n.Restart()
		}
	}
	churn, kept := zooChurnTx(es, r)
	if t := exec(ExecReq{Kind: "tx", Source: churn, Signers: []uint64{ZooOwner}}, "churn"); t.Class != "ok" {
		return zr
	}
	zr.Entries = kept
	zr.Verify = zooVerifyScript(kept)
	zr.W = n.H.W
	return zr
}

// checkZooLedger applies oracles 1-3 to a zoo ledger with the tree under test.
func checkZooLedger(w *World, verify string, predicted map[string]string, engines []string) (vs []Violation) {
	rep := CheckHealth(w)
	if rep.Err != "" {
		vs = append(vs, zooViolation("ledger.decodes", "decode", "%s", rep.Err))
	}
	if rep.ReencodeErr != "" {
		vs = append(vs, zooViolation("ledger.reencode", "reencode", "%s", rep.ReencodeErr))
	}
	for _, p := range sortedStringKeys(predicted) {
		got, err := readPath(w, ZooOwner, common.PathDomainStorage, p)
		if err != nil {
			vs = append(vs, zooViolation("zoo.predicted", "predicted-error", "ReadStored(/storage/%s) failed: %v", p, err))
			continue
		}
		if want := predicted[p]; got != want && got != "?("+want+")" {
			vs = append(vs, zooViolation("zoo.predicted", "predicted-mismatch", "/storage/%s decodes to\n   %s\nbut the value stored was\n   %s", p, clip(got, 600), clip(want, 600)))
		}
	}
	for _, engine := range engines {
		n := NewNode(NodeConfig{Name: "verify-" + engine, Engine: engine, Cache: "warm", EnvReuse: true}, w.Clone())
		t := n.Exec(ExecReq{Kind: "script", Source: verify}, false)
		if t.Class != "ok" {
			v := zooViolation("zoo.verify", "verify-failed", "the verification script failed on %s: class=%s type=%s %s", engine, t.Class, t.ErrType, clip(fmt.Sprint(t.Err), 2500))
			v.Engine = engine
			vs = append(vs, v)
		} else if t.Result != "[]" {
			v := zooViolation("zoo.verify", "verify-bad", "stored values that no longer equal what was stored (%s): %s", engine, clip(t.Result, 800))
			v.Engine = engine
			vs = append(vs, v)
		}
	}
	return
}

func sortedStringKeys(m map[string]string) []string {
	ks := make([]string, 0, len(m))
	for k := range m {
		ks = append(ks, k)
	}
	sort.Strings(ks)
	return ks
}

func predictedOf(es []ZooEntry) map[string]string {
	m := map[string]string{}
	for _, e := range es {
		if e.Canon != "" && strings.HasPrefix(e.Name, "z") {
			m[e.Name] = e.Canon
		}
	}
	return m
}

// ---------------------------------------------------------------------------------------------
// generator (runs in a binary built against the WRITING tree)

func devC44Gen(args []string) {
	fs := flag.NewFlagSet("c44gen", flag.ExitOnError)
	out := fs.String("out", "", "output directory")
	rev := fs.String("rev", "", "git revision of the writing tree")
	zoos := fs.Int("zoos", 12, "zoo items")
	plans := fs.Int("plans", 24, "plan items")
	fs.Parse(args)
	os.MkdirAll(*out, 0o755)
	write := func(it *LedgerItem) {
		b, _ := json.Marshal(it)
		if err := os.WriteFile(filepath.Join(*out, it.Name+".json"), b, 0o644); err != nil {
			panic(err)
		}
		fmt.Printf("wrote %s: %d registers, %d domain values, %d continuation steps\n", it.Name, len(it.World.Ledger), len(it.Domains), len(it.Cont))
	}
	for k := 0; k < *zoos; k++ {
		seed := uint64(4400 + k)
		engine := []string{"interp", "vm"}[k%2]
		zr := runZoo(seed, engine)
		if len(zr.V) > 0 {
			fmt.Printf("zoo %d skipped: %s\n", seed, clip(zr.V[0].String(), 2000))
			continue
		}
		pred := predictedOf(zr.Entries)
		if vs := checkZooLedger(zr.W, zr.Verify, pred, []string{"interp", "vm"}); len(vs) > 0 {
			fmt.Printf("zoo %d skipped (the writing tree fails its own oracles): %s\n", seed, clip(vs[0].String(), 2000))
			continue
		}
		it := &LedgerItem{Name: fmt.Sprintf("zoo-%d", seed), Kind: "zoo", Seed: seed, WrittenBy: *rev, Engine: engine, World: dumpWorld(zr.W), Verify: zr.Verify, Predicted: pred, Kinds: map[string]int{}}
		for _, e := range zr.Entries {
			it.Kinds[e.Kind]++
		}
		var err error
		if it.Domains, err = DumpDomains(zr.W); err != nil {
			panic(err)
		}
		if it.Paths, err = readAllPaths(zr.W); err != nil {
			panic(err)
		}
		write(it)
	}
	made := 0
	for s := uint64(1); made < *plans && s < 4000; s++ {
		seed := 440000 + s
		r := NewRng(seed)
		cfg := cfgFor("C44", r)
		cfg.Steps = 14 + r.Intn(14)
		cfg.FaultRate, cfg.NoiseRate = 0, 0
		g := &Gen{R: r, Cfg: cfg}
		p := g.Plan(seed)
		engine := []string{"interp", "vm"}[s%2]
		p.Nodes = []NodeConfig{{Name: "primary", Engine: engine, Cache: "warm", EnvReuse: true}}
		run := NewRunner(p, RunOpts{Health: true, Readback: true})
		split := len(p.Steps) * 2 / 3
		var snap *World
		var cont []ContStep
		run.OnPrimary = func(i int, req ExecReq, t *Transcript) {
			if i < split {
				return
			}
			cont = append(cont, ContStep{Kind: "exec", Req: req, Class: t.Class, ErrType: t.ErrType, Obs: t.Obs, Events: canonEvents(t), Logs: t.Logs, Result: t.Result, Committed: t.Committed})
		}
		for i := range p.Steps {
			if i == split {
				snap = run.Nodes[0].H.W.Clone()
			}
			if p.Steps[i].Kind == "block" && i >= split {
				cont = append(cont, ContStep{Kind: "block"})
			}
			run.step(i)
			if len(run.V) > 0 {
				break
			}
		}
		if len(run.V) > 0 || snap == nil || run.Stats.Committed < 4 {
			continue
		}
		it := &LedgerItem{Name: fmt.Sprintf("plan-%d", seed), Kind: "plan", Seed: seed, WrittenBy: *rev, Engine: engine, World: dumpWorld(snap), Cont: cont}
		var err error
		if it.Domains, err = DumpDomains(snap); err != nil {
			panic(err)
		}
		if it.Paths, err = readAllPaths(snap); err != nil {
			panic(err)
		}
		write(it)
		made++
	}
}

// ---------------------------------------------------------------------------------------------
// the check

// checkCorpusItem opens one item written by another tree with the tree under test.
func checkCorpusItem(it *LedgerItem, stats *RunStats) (vs []Violation) {
	add := func(oracle, key, f string, a ...any) {
		v := zooViolation(oracle, key, f, a...)
		v.Detail = "corpus item " + it.Name + " (written by " + it.WrittenBy + ", " + it.Engine + "): " + v.Detail
		vs = append(vs, v)
	}
	w := it.World.World()
	// 1. decode + re-encode + health
	rep := CheckHealth(w)
	stats.HealthChecks++
	if rep.Err != "" {
		add("corpus.decodes", "decode", "%s", rep.Err)
		return
	}
	if rep.ReencodeErr != "" {
		add("corpus.reencode", "reencode", "%s", rep.ReencodeErr)
	}
	// 2. same values as the writing tree saw
	doms, err := DumpDomains(w)
	if err != nil {
		add("corpus.decodes", "decode", "%v", err)
		return
	}
	for _, k := range sortedStringKeys(it.Domains) {
		got, ok := doms[k]
		if !ok {
			add("corpus.same-values", "domain-missing", "%s is no longer found in its storage domain", k)
		} else if got != it.Domains[k] {
			add("corpus.same-values", "domain-differs", "%s decodes to\n   %s\nbut the writing tree stored\n   %s", k, clip(got, 600), clip(it.Domains[k], 600))
		}
		if len(vs) > 3 {
			return
		}
	}
	for k := range doms {
		if _, ok := it.Domains[k]; !ok {
			add("corpus.same-values", "domain-extra", "%s was not there when the ledger was written", k)
			break
		}
	}
	paths, err := readAllPaths(w)
	if err != nil {
		add("corpus.decodes", "decode", "%v", err)
		return
	}
	for _, k := range sortedStringKeys(it.Paths) {
		stats.Readbacks++
		if got := paths[k]; got != it.Paths[k] {
			add("corpus.same-values", "path-differs", "ReadStored(%s) gives\n   %s\nbut gave on the writing tree\n   %s", k, clip(got, 600), clip(it.Paths[k], 600))
			if len(vs) > 3 {
				return
			}
		}
	}
	// 3. zoo: in-language verification and predicted renderings
	if it.Kind == "zoo" {
		for _, v := range checkZooLedger(w, it.Verify, it.Predicted, []string{"interp", "vm"}) {
			v.Detail = "corpus item " + it.Name + ": " + v.Detail
			vs = append(vs, v)
		}
		stats.Execs += 2
	}
	// 4. continue the history on the old ledger
	for _, engine := range []string{"interp", "vm"} {
		n := NewNode(NodeConfig{Name: "upgraded-" + engine, Engine: engine, Cache: "warm", EnvReuse: true}, w.Clone())
		for i, cs := range it.Cont {
			if cs.Kind == "block" {
				n.H.W.Height++
				continue
			}
			t := n.Exec(cs.Req, true)
			stats.Execs++
			stats.ByEngine[engine]++
			what := fmt.Sprintf("continuation step %d on %s", i, engine)
			switch {
			case t.Class != cs.Class:
				add("corpus.continuation", "cont-class", "%s ends %s (%s: %s) but ended %s on the writing tree\n%s", what, t.Class, t.ErrType, clip(t.ErrMsg, 500), cs.Class, clip(cs.Req.Source, 1500))
			case t.Class != "ok" && t.ErrType != cs.ErrType:
				add("corpus.continuation", "cont-errtype", "%s fails with %s, on the writing tree with %s", what, t.ErrType, cs.ErrType)
			case fmt.Sprint(t.Obs) != fmt.Sprint(cs.Obs):
				add("corpus.continuation", "cont-obs", "%s observes %s; the writing tree observed %s\n%s", what, diffFirst(cs.Obs, t.Obs), "", clip(cs.Req.Source, 1500))
			case fmt.Sprint(canonEvents(t)) != fmt.Sprint(cs.Events):
				add("corpus.continuation", "cont-events", "%s emits different events: %s", what, diffFirst(cs.Events, canonEvents(t)))
			case t.Result != cs.Result:
				add("corpus.continuation", "cont-result", "%s returns %s, on the writing tree %s", what, clip(t.Result, 400), clip(cs.Result, 400))
			}
			if len(vs) > 0 {
				return
			}
			if t.Committed {
				stats.Committed++
				rep := CheckHealth(n.H.W)
				stats.HealthChecks++
				if rep.Err != "" {
					add("corpus.continuation-health", "cont-health", "after %s: %s", what, rep.Err)
					return
				}
				if rep.ReencodeErr != "" {
					add("corpus.reencode", "reencode", "after %s: %s", what, rep.ReencodeErr)
					return
				}
			}
		}
	}
	return
}

func c44Worker(w *WorkerCtx) {
	items, err := loadCorpus()
	if err != nil || len(items) == 0 {
		w.Emit(WorkResult{Kind: "harness-error", Msg: fmt.Sprintf("C44 corpus missing or unreadable in %s: %v", corpusDir(), err)})
		return
	}
	if !c44TypeSweep(w) {
		return
	}
	nw := numCPU()
	if v := os.Getenv("VERIF_C44_WORKERS"); v != "" {
		fmt.Sscanf(v, "%d", &nw)
	}
	// every corpus item is checked by exactly one worker
	for i, it := range items {
		if i%nw != w.Index%nw {
			continue
		}
		stats := NewRunStats()
		vs := checkCorpusItem(it, stats)
		res := WorkResult{Kind: "item", Seed: it.Seed, Shape: "corpus:" + it.Name, NonTrivial: len(it.Domains) > 5, Stats: stats, Extra: map[string]int{"corpus_items": 1, "corpus_registers": len(it.World.Ledger), "corpus_domain_values": len(it.Domains), "corpus_continuation_steps": len(it.Cont)}}
		for k, n := range it.Kinds {
			res.Extra["corpus_kind:"+k] += n
		}
		res.Extra["corpus_items_written_by:"+it.WrittenBy]++
		if sm, err := json.Marshal(map[string]any{"corpus_item": it.Name, "kind": it.Kind, "written_by": it.WrittenBy, "writer_engine": it.Engine, "registers": len(it.World.Ledger), "domain_values": len(it.Domains), "paths_read": len(it.Paths), "continuation_steps": len(it.Cont), "value_kinds": it.Kinds}); err == nil {
			res.Sample = sm
		}
		if len(vs) > 0 {
			v := vs[0]
			rf := &ReplayFile{Property: "C44", Oracle: v.Oracle, VerifSeed: int64(w.Seed), Tier: w.Tier, Kind: "c44corpus", Custom: json.RawMessage(fmt.Sprintf("%q", it.Name)), Violation: &v}
			res.Replay = WriteReplay(filepath.Join(outDir(), "replay"), rf, "corpus-"+it.Name)
			res.Violations = []Violation{v}
		}
		w.Emit(res)
		if len(vs) > 0 {
			return
		}
	}
	// live half: fresh zoo histories on the tree under test
	for k := 0; w.TimeLeft(); k++ {
		seed := w.Seed*1000003 + uint64(k)
		engine := []string{"interp", "vm", "vmpeep"}[k%3]
		stats := NewRunStats()
		zr := runZoo(seed, engine)
		stats.Execs += zr.Execs
		stats.ByEngine[engine] += zr.Execs
		vs := zr.V
		if len(vs) == 0 {
			n := NewNode(NodeConfig{Name: "restarted", Engine: engine}, zr.W)
			_ = n
			vs = checkZooLedger(zr.W, zr.Verify, predictedOf(zr.Entries), []string{"interp", "vm"})
			stats.Execs += 2
			stats.HealthChecks++
			stats.Restarts++
		}
		res := WorkResult{Kind: "item", Seed: seed, Shape: fmt.Sprintf("zoo:%d:%s", seed, engine), NonTrivial: len(zr.Entries) > 20, Stats: stats, Extra: map[string]int{"live_zoo_histories": 1, "live_zoo_entries": len(zr.Entries)}}
		for _, e := range zr.Entries {
			res.Extra["live_kind:"+e.Kind]++
		}
		if k == 0 {
			var first []string
			for i, e := range zr.Entries {
				if i%9 == 0 && len(first) < 10 {
					first = append(first, e.Kind+": "+clip(e.Store, 160))
				}
			}
			res.Sample, _ = json.Marshal(map[string]any{"live_zoo_seed": seed, "engine": engine, "entries": len(zr.Entries), "some_entries": first})
		}
		if len(vs) > 0 {
			v := vs[0]
			rf := &ReplayFile{Property: "C44", Oracle: v.Oracle, VerifSeed: int64(w.Seed), Tier: w.Tier, Kind: "c44zoo", Custom: json.RawMessage(fmt.Sprintf(`{"seed":%d,"engine":%q}`, seed, engine)), Violation: &v}
			res.Replay = WriteReplay(filepath.Join(outDir(), "replay"), rf, fmt.Sprintf("zoo-%d", seed))
			res.Violations = []Violation{v}
			w.Emit(res)
			return
		}
		w.Emit(res)
	}
}

func init() {
	checks["C44"] = &CheckSpec{Prop: "C44", Level: "exploration", QuickBudget: 45 * time.Second, ThoroughBudget: 10 * time.Minute,
		Assumptions: []string{realStub,
			"the corpus under /verif/corpus/c44 was written by a simulator binary built against the pinned commit (revision recorded in every item; tools/gen_c44_corpus.sh); its renderings use this harness's canonical form (sim/canon.go), so the corpus must be regenerated if that form is edited",
			"values are compared structurally (exported cadence.Value rendered by the harness), never through String() or JSON formats"},
		Rule: "F12 upgrade fault: every node restarts on the tree under test with only the durable state written by the pinned tree. Per corpus item (zoo items: every numeric type at its boundaries, strings, characters, addresses, paths, optionals, typed and AnyStruct containers across slab thresholds, structs, enums, resources with nested resources and attachments, ranges, capabilities, storage and account capability controllers with tags / retargets / deletions, published and inbox values, type values over every static-type kind; plan items: ledgers left by seeded histories over all operation families): every slab decodes and re-encodes to identical bytes, every value of every storage domain and ReadStored of every path equal what the pinned tree saw, the in-language verification script holds on both engines, and the recorded continuation of the history replays with identical outcomes / observations / events on both engines with ledger health after every commit. Remaining budget: fresh zoo histories on the tree under test (store, commit, restart, verify, predicted renderings). distinct = corpus items + live (seed, engine) pairs",
		Worker: c44Worker}
	customReplays["c44corpus"] = func(rf *ReplayFile) []Violation {
		var name string
		json.Unmarshal(rf.Custom, &name)
		items, _ := loadCorpus()
		for _, it := range items {
			if it.Name == name {
				return checkCorpusItem(it, NewRunStats())
			}
		}
		return nil
	}
	customReplays["c44zoo"] = func(rf *ReplayFile) []Violation {
		var c struct {
			Seed   uint64 `json:"seed"`
			Engine string `json:"engine"`
		}
		json.Unmarshal(rf.Custom, &c)
		zr := runZoo(c.Seed, c.Engine)
		if len(zr.V) > 0 {
			return zr.V
		}
		return checkZooLedger(zr.W, zr.Verify, predictedOf(zr.Entries), []string{"interp", "vm"})
	}
}
