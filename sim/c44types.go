package main

import (
	"bytes"
	"encoding/json"
	"fmt"
	"path/filepath"

	"github.com/onflow/cadence/common"
	"github.com/onflow/cadence/interpreter"
	"github.com/onflow/cadence/sema"
)

// Static-type sweep: static types that Cadence source cannot spell (a one-element disjunction, deep nestings, every primitive) are
// built at the Go level from the seeded stream; each must decode from its storage encoding to an Equal type and re-encode to the same bytes.

func genLocation(r *Rng) common.Location {
	if r.Intn(5) == 0 {
		return common.StringLocation(r.Pick([]string{"a", "lib", "x.y"}))
	}
	return common.NewAddressLocation(nil, common.Address{0, 0, 0, 0, 0, 0, byte(r.Intn(3)), byte(1 + r.Intn(255))}, r.Pick([]string{"A", "Zoo", "Token"}))
}

func genTypeID(r *Rng) common.TypeID {
	loc := genLocation(r)
	return loc.TypeID(nil, r.Pick([]string{"A.E", "Zoo.X", "Zoo.Y", "Token.Withdraw", "A.M"}))
}

func genAuthorization(r *Rng) interpreter.Authorization {
	switch r.Intn(4) {
	case 0:
		return interpreter.UnauthorizedAccess
	case 1:
		return interpreter.NewEntitlementMapAuthorization(nil, genTypeID(r))
	default:
		n := 1 + r.Intn(3)
		seen := map[common.TypeID]bool{}
		var ids []common.TypeID
		for len(ids) < n {
			id := genTypeID(r)
			if !seen[id] {
				seen[id] = true
				ids = append(ids, id)
			}
		}
		kind := sema.Conjunction
		if r.Intn(2) == 0 {
			kind = sema.Disjunction
		}
		return interpreter.NewEntitlementSetAuthorization(nil, func() []common.TypeID { return ids }, len(ids), kind)
	}
}

var definedPrimitives []interpreter.PrimitiveStaticType

func genPrimitive(r *Rng) interpreter.StaticType {
	if definedPrimitives == nil {
		for t := interpreter.PrimitiveStaticTypeUnknown + 1; t < interpreter.PrimitiveStaticType_Count; t++ {
			// the primitive `Capability` is an in-memory alias the decoder canonicalises on purpose to CapabilityStaticType{nil}: not generated
			if t.IsDefined() && !t.IsDeprecated() && t != interpreter.PrimitiveStaticTypeCapability { //nolint
				definedPrimitives = append(definedPrimitives, t)
			}
		}
	}
	return definedPrimitives[r.Intn(len(definedPrimitives))]
}

func genInterface(r *Rng) *interpreter.InterfaceStaticType {
	loc := genLocation(r)
	return interpreter.NewInterfaceStaticTypeComputeTypeID(nil, loc, r.Pick([]string{"Zoo.RI", "A.I", "Token.Provider", "Token.Receiver"}))
}

func genStaticType(r *Rng, depth int) interpreter.StaticType {
	k := r.Intn(12)
	if depth <= 0 && k > 2 {
		k = r.Intn(3)
	}
	switch k {
	case 0:
		return genPrimitive(r)
	case 1:
		return interpreter.NewCompositeStaticTypeComputeTypeID(nil, genLocation(r), r.Pick([]string{"Zoo.R", "A.S", "Token.Vault", "A.S.Inner"}))
	case 2:
		return genInterface(r)
	case 3:
		return interpreter.NewOptionalStaticType(nil, genStaticType(r, depth-1))
	case 4:
		return interpreter.NewVariableSizedStaticType(nil, genStaticType(r, depth-1))
	case 5:
		sizes := []int64{0, 1, 23, 24, 255, 256, 65535, 65536, 1 << 31, 1<<63 - 1}
		return interpreter.NewConstantSizedStaticType(nil, genStaticType(r, depth-1), sizes[r.Intn(len(sizes))])
	case 6:
		return interpreter.NewDictionaryStaticType(nil, genStaticType(r, depth-1), genStaticType(r, depth-1))
	case 7:
		n := 1 + r.Intn(3)
		var ts []*interpreter.InterfaceStaticType
		for i := 0; i < n; i++ {
			ts = append(ts, genInterface(r))
		}
		return interpreter.NewIntersectionStaticType(nil, ts)
	case 8, 9:
		return interpreter.NewReferenceStaticType(nil, genAuthorization(r), genStaticType(r, depth-1))
	case 10:
		if r.Intn(4) == 0 {
			return interpreter.NewCapabilityStaticType(nil, nil)
		}
		return interpreter.NewCapabilityStaticType(nil, interpreter.NewReferenceStaticType(nil, genAuthorization(r), genStaticType(r, depth-1)))
	default:
		ints := []interpreter.PrimitiveStaticType{interpreter.PrimitiveStaticTypeInt, interpreter.PrimitiveStaticTypeUInt8, interpreter.PrimitiveStaticTypeInt128, interpreter.PrimitiveStaticTypeWord64, interpreter.PrimitiveStaticTypeUInt256}
		return interpreter.NewInclusiveRangeStaticType(nil, ints[r.Intn(len(ints))])
	}
}

func staticTypeRoundTrip(t interpreter.StaticType) (problem string) {
	defer func() {
		if x := recover(); x != nil {
			problem = fmt.Sprintf("static type %s: panic during encode/decode: %v", t, x)
		}
	}()
	b, err := interpreter.StaticTypeToBytes(t)
	if err != nil {
		return fmt.Sprintf("static type %s does not encode: %v", t, err)
	}
	d, err := interpreter.StaticTypeFromBytes(b)
	if err != nil {
		return fmt.Sprintf("static type %s: its encoding %x does not decode: %v", t, []byte(b), err)
	}
	if !d.Equal(t) || !t.Equal(d) {
		return fmt.Sprintf("static type %s (%#v) decodes from %x to an unequal type %s (%#v)", t, t, []byte(b), d, d)
	}
	if d.ID() != t.ID() || d.String() != t.String() {
		return fmt.Sprintf("static type %s decodes from %x to %s (ID %s, was %s)", t, []byte(b), d, d.ID(), t.ID())
	}
	b2, err := interpreter.StaticTypeToBytes(d)
	if err != nil || !bytes.Equal(b, b2) {
		return fmt.Sprintf("static type %s: encoding %x, decoded and re-encoded %x (err %v)", t, []byte(b), []byte(b2), err)
	}
	return ""
}

func staticTypeSweep(seed uint64, n int) (count int, problem string) {
	r := NewRng(seed ^ 0x4474)
	for i := 0; i < n; i++ {
		t := genStaticType(r, 1+r.Intn(4))
		count++
		if p := staticTypeRoundTrip(t); p != "" {
			return count, p
		}
	}
	return count, ""
}

// c44TypeSweep runs the sweep for one worker; returns false when a violation was emitted.
func c44TypeSweep(w *WorkerCtx) bool {
	n := 4000
	if w.Tier == "thorough" {
		n = 100000
	}
	seed := w.Seed + uint64(w.Index)*7919
	count, problem := staticTypeSweep(seed, n)
	if problem != "" {
		v := Violation{Property: "C44", Oracle: "static-type.round-trip", Key: "type-sweep", Detail: problem}
		cu, _ := json.Marshal(map[string]uint64{"seed": seed, "n": uint64(n)})
		rf := &ReplayFile{Property: "C44", Oracle: v.Oracle, VerifSeed: int64(w.Seed), Tier: w.Tier, Kind: "c44types", Custom: cu, Violation: &v}
		w.Emit(WorkResult{Kind: "item", Violations: []Violation{v}, Replay: WriteReplay(filepath.Join(outDir(), "replay"), rf, "type-sweep"), NonTrivial: true, Shape: "type-sweep"})
		return false
	}
	w.Emit(WorkResult{Kind: "item", Seed: seed, Stats: NewRunStats(), Shape: fmt.Sprintf("type-sweep/worker-%d", w.Index), NonTrivial: true,
		Extra: map[string]int{"static_types_round_tripped": count}})
	return true
}

func init() {
	customReplays["c44types"] = func(rf *ReplayFile) []Violation {
		var cu map[string]uint64
		json.Unmarshal(rf.Custom, &cu)
		if _, p := staticTypeSweep(cu["seed"], int(cu["n"])); p != "" {
			return []Violation{{Property: "C44", Oracle: "static-type.round-trip", Key: "type-sweep", Detail: p}}
		}
		return nil
	}
}
