package main

// C51: internal ordered collections against list / map models.
// Seeded operation sequences; the one real source of nondeterminism here - the interval tree's math/rand insertion -
// is put behind the seed (go:debug randseednop=0 + rand.Seed) and every sequence is run under several tree shapes.
// There are no faults to inject: this is pure in-memory code (stated in the evidence).

import (
	"encoding/json"
	"fmt"
	"math/rand"
	"path/filepath"
	"sort"
	"strings"

	"github.com/onflow/cadence/common/bimap"
	"github.com/onflow/cadence/common/intervalst"
	"github.com/onflow/cadence/common/list"
	"github.com/onflow/cadence/common/orderedmap"
	"github.com/onflow/cadence/common/persistent"
)

type c51Trial struct {
	Kind string `json:"kind"` // orderedmap | orderedset | intervalst | bimap | list
	Seed uint64 `json:"seed"`
	Ops  int    `json:"ops"`
}

type ipos int

func (p ipos) Compare(other intervalst.Position) int {
	if _, ok := other.(intervalst.MinPosition); ok {
		return 1
	}
	o := other.(ipos)
	switch {
	case p < o:
		return -1
	case p > o:
		return 1
	}
	return 0
}

type kv struct {
	k, v int
}

func runC51(tr c51Trial) (fail string, opsDone int) {
	r := NewRng(tr.Seed)
	fails := func(f string, a ...any) string { return fmt.Sprintf(f, a...) }
	switch tr.Kind {
	case "orderedmap":
		om := &orderedmap.OrderedMap[int, int]{}
		var model []kv
		find := func(k int) int {
			for i, p := range model {
				if p.k == k {
					return i
				}
			}
			return -1
		}
		check := func(step int) string {
			if om.Len() != len(model) {
				return fails("step %d: Len %d, model %d", step, om.Len(), len(model))
			}
			i := 0
			for p := om.Oldest(); p != nil; p = p.Next() {
				if i >= len(model) || p.Key != model[i].k || p.Value != model[i].v {
					return fails("step %d: forward iteration differs at %d", step, i)
				}
				i++
			}
			if i != len(model) {
				return fails("step %d: forward iteration ends after %d of %d", step, i, len(model))
			}
			i = len(model) - 1
			for p := om.Newest(); p != nil; p = p.Prev() {
				if i < 0 || p.Key != model[i].k {
					return fails("step %d: backward iteration differs at %d", step, i)
				}
				i--
			}
			return ""
		}
		for s := 0; s < tr.Ops; s++ {
			k := r.Intn(24)
			switch r.Intn(12) {
			case 0, 1, 2, 3:
				v := r.Intn(1000)
				old, present := om.Set(k, v)
				i := find(k)
				if present != (i >= 0) || (present && old != model[i].v) {
					return fails("step %d: Set(%d) returned (%d,%v)", s, k, old, present), s
				}
				if i >= 0 {
					model[i].v = v // an existing key keeps its position
				} else {
					model = append(model, kv{k, v})
				}
			case 4, 5:
				old, present := om.Delete(k)
				i := find(k)
				if present != (i >= 0) || (present && old != model[i].v) {
					return fails("step %d: Delete(%d) returned (%d,%v)", s, k, old, present), s
				}
				if i >= 0 {
					model = append(model[:i:i], model[i+1:]...)
				}
			case 6:
				v, present := om.Get(k)
				i := find(k)
				if present != (i >= 0) || (present && v != model[i].v) || om.Contains(k) != present {
					return fails("step %d: Get(%d) = (%d,%v)", s, k, v, present), s
				}
				if p := om.GetPair(k); (p != nil) != present || (p != nil && p.Value != v) {
					return fails("step %d: GetPair(%d) inconsistent", s, k), s
				}
			case 7:
				var seen []kv
				om.ForeachWithIndex(func(index int, key, value int) {
					if index != len(seen) {
						seen = append(seen, kv{-1, -1})
					}
					seen = append(seen, kv{key, value})
				})
				if fmt.Sprint(seen) != fmt.Sprint(model) {
					return fails("step %d: ForeachWithIndex %v, model %v", s, seen, model), s
				}
			case 8:
				other := &orderedmap.OrderedMap[int, int]{}
				var om2 []kv
				for i, n := 0, r.Intn(6); i < n; i++ {
					kk, vv := r.Intn(24), r.Intn(1000)
					if _, present := other.Set(kk, vv); !present {
						om2 = append(om2, kv{kk, vv})
					} else {
						for j := range om2 {
							if om2[j].k == kk {
								om2[j].v = vv
							}
						}
					}
				}
				// set algebra on key sets
				disjoint := true
				var inter, union []int
				for _, p := range model {
					union = append(union, p.k)
					for _, q := range om2 {
						if q.k == p.k {
							disjoint = false
							inter = append(inter, p.k)
						}
					}
				}
				for _, q := range om2 {
					if find(q.k) < 0 {
						union = append(union, q.k)
					}
				}
				if om.KeySetIsDisjointFrom(other) != disjoint {
					return fails("step %d: KeySetIsDisjointFrom", s), s
				}
				var gi, gu []int
				orderedmap.KeySetIntersection(om, other).Foreach(func(k, _ int) { gi = append(gi, k) })
				orderedmap.KeySetUnion(om, other).Foreach(func(k, _ int) { gu = append(gu, k) })
				if fmt.Sprint(gi) != fmt.Sprint(inter) || fmt.Sprint(gu) != fmt.Sprint(union) {
					return fails("step %d: key set intersection %v (model %v) / union %v (model %v)", s, gi, inter, gu, union), s
				}
				if r.Chance(0.3) {
					om.SetAll(other)
					for _, q := range om2 {
						if i := find(q.k); i >= 0 {
							model[i].v = q.v
						} else {
							model = append(model, q)
						}
					}
				}
			case 9:
				all := om.ForAllKeys(func(k int) bool { return k%2 == 0 })
				any := om.ForAnyKey(func(k int) bool { return k%5 == 0 })
				ma, mn := true, false
				for _, p := range model {
					if p.k%2 != 0 {
						ma = false
					}
					if p.k%5 == 0 {
						mn = true
					}
				}
				if all != ma || any != mn {
					return fails("step %d: ForAllKeys/ForAnyKey", s), s
				}
			case 10:
				if r.Chance(0.1) {
					om.Clear()
					model = nil
				}
			}
			if f := check(s); f != "" {
				return f, s
			}
		}
	case "orderedset":
		type mset struct {
			parent *mset
			items  []int
		}
		var sets []*persistent.OrderedSet[int]
		var models []*mset
		sets = append(sets, persistent.NewOrderedSet[int](nil))
		models = append(models, &mset{})
		contains := func(m *mset, x int) bool {
			for c := m; c != nil; c = c.parent {
				for _, y := range c.items {
					if y == x {
						return true
					}
				}
			}
			return false
		}
		iter := func(m *mset) []int {
			var out []int
			for c := m; c != nil; c = c.parent {
				out = append(out, c.items...)
			}
			return out
		}
		for s := 0; s < tr.Ops; s++ {
			i := r.Intn(len(sets))
			x := r.Intn(30)
			switch r.Intn(8) {
			case 0, 1, 2:
				sets[i].Add(x)
				if !contains(models[i], x) {
					models[i].items = append(models[i].items, x)
				}
			case 3:
				if len(sets) < 12 {
					sets = append(sets, sets[i].Clone())
					models = append(models, &mset{parent: models[i]})
				}
			case 4:
				j := r.Intn(len(sets))
				if len(sets) < 12 {
					ns, nm := persistent.NewOrderedSet[int](nil), &mset{}
					ns.AddIntersection(sets[i], sets[j])
					for _, y := range iter(models[i]) {
						if contains(models[j], y) && !contains(nm, y) {
							nm.items = append(nm.items, y)
						}
					}
					sets, models = append(sets, ns), append(models, nm)
				}
			default:
				if sets[i].Contains(x) != contains(models[i], x) {
					return fails("step %d: set %d Contains(%d) = %v", s, i, x, sets[i].Contains(x)), s
				}
			}
			// cross-check every set (children must not see later additions to... their parents ARE shared: they do)
			for k := range sets {
				var got []int
				_ = sets[k].ForEach(func(item int) error { got = append(got, item); return nil })
				if fmt.Sprint(got) != fmt.Sprint(iter(models[k])) {
					return fails("step %d: set %d iterates %v, model %v", s, k, got, iter(models[k])), s
				}
				if sets[k].IsEmpty() != (len(iter(models[k])) == 0) {
					return fails("step %d: set %d IsEmpty", s, k), s
				}
			}
		}
	case "intervalst":
		// the same operation sequence under several tree shapes (math/rand decides the insertion)
		for shape := 0; shape < 4; shape++ {
			rand.Seed(int64(tr.Seed)*31 + int64(shape))
			rr := NewRng(tr.Seed)
			t := &intervalst.IntervalST[int]{}
			type ent struct {
				lo, hi, v int
			}
			var model []ent
			for s := 0; s < tr.Ops; s++ {
				switch rr.Intn(6) {
				case 0, 1, 2:
					lo := rr.Intn(60)
					hi := lo + rr.Intn(12)
					dup := false
					for _, e := range model {
						if e.lo == lo && e.hi == hi {
							dup = true
						}
					}
					if dup {
						continue
					}
					t.Put(intervalst.NewInterval(ipos(lo), ipos(hi)), s)
					model = append(model, ent{lo, hi, s})
				case 3:
					p := rr.Intn(75)
					iv, v, ok := t.Search(ipos(p))
					want := false
					for _, e := range model {
						if e.lo <= p && p <= e.hi {
							want = true
						}
					}
					if ok != want {
						return fails("shape %d step %d: Search(%d) found=%v, model %v", shape, s, p, ok, want), s
					}
					if ok {
						good := false
						for _, e := range model {
							if ipos(e.lo) == iv.Min.(ipos) && ipos(e.hi) == iv.Max.(ipos) && e.v == v && e.lo <= p && p <= e.hi {
								good = true
							}
						}
						if !good {
							return fails("shape %d step %d: Search(%d) returned [%v,%v]=%d which is not a stored interval containing it", shape, s, p, iv.Min, iv.Max, v), s
						}
					}
				case 4:
					p := rr.Intn(75)
					var got, want []string
					for _, e := range t.SearchAll(ipos(p)) {
						got = append(got, fmt.Sprintf("%v-%v=%d", e.Interval.Min, e.Interval.Max, e.Value))
					}
					for _, e := range model {
						if e.lo <= p && p <= e.hi {
							want = append(want, fmt.Sprintf("%d-%d=%d", e.lo, e.hi, e.v))
						}
					}
					sort.Strings(got)
					sort.Strings(want)
					if strings.Join(got, ",") != strings.Join(want, ",") {
						return fails("shape %d step %d: SearchAll(%d) = %v, model %v", shape, s, p, got, want), s
					}
				default:
					if len(model) > 0 {
						e := model[rr.Intn(len(model))]
						v, ok := t.Get(intervalst.NewInterval(ipos(e.lo), ipos(e.hi)))
						if !ok || v != e.v || !t.Contains(intervalst.NewInterval(ipos(e.lo), ipos(e.hi))) {
							return fails("shape %d step %d: Get([%d,%d]) = (%d,%v), model %d", shape, s, e.lo, e.hi, v, ok, e.v), s
						}
					}
					if t.Contains(intervalst.NewInterval(ipos(200), ipos(201))) {
						return fails("shape %d step %d: Contains of an absent interval", shape, s), s
					}
					vals := t.Values()
					if len(vals) != len(model) {
						return fails("shape %d step %d: Values has %d entries, model %d", shape, s, len(vals), len(model)), s
					}
				}
			}
		}
	case "bimap":
		b := bimap.NewBiMap[int, int]()
		var model []kv
		for s := 0; s < tr.Ops; s++ {
			k, v := r.Intn(16), r.Intn(16)
			switch r.Intn(6) {
			case 0, 1, 2:
				b.Insert(k, v)
				var nm []kv
				for _, p := range model {
					if p.k != k && p.v != v {
						nm = append(nm, p)
					}
				}
				model = append(nm, kv{k, v})
			case 3:
				b.Delete(k)
				var nm []kv
				for _, p := range model {
					if p.k != k {
						nm = append(nm, p)
					}
				}
				model = nm
			case 4:
				b.DeleteInverse(v)
				var nm []kv
				for _, p := range model {
					if p.v != v {
						nm = append(nm, p)
					}
				}
				model = nm
			}
			if b.Size() != len(model) {
				return fails("step %d: Size %d, model %d", s, b.Size(), len(model)), s
			}
			for q := 0; q < 16; q++ {
				gv, ok := b.Get(q)
				gk, ok2 := b.GetInverse(q)
				wantV, wantOK, wantK, wantOK2 := 0, false, 0, false
				for _, p := range model {
					if p.k == q {
						wantV, wantOK = p.v, true
					}
					if p.v == q {
						wantK, wantOK2 = p.k, true
					}
				}
				if ok != wantOK || (ok && gv != wantV) || ok2 != wantOK2 || (ok2 && gk != wantK) || b.Exists(q) != wantOK || b.ExistsInverse(q) != wantOK2 {
					return fails("step %d: lookups of %d: Get=(%d,%v) GetInverse=(%d,%v), model (%d,%v) (%d,%v)", s, q, gv, ok, gk, ok2, wantV, wantOK, wantK, wantOK2), s
				}
			}
		}
	case "list":
		l := list.New[int]()
		var model []int
		var elems []*list.Element[int]
		for s := 0; s < tr.Ops; s++ {
			x := r.Intn(1000)
			n := len(model)
			switch r.Intn(10) {
			case 0, 1:
				elems = append(elems, l.PushBack(x))
				model = append(model, x)
			case 2:
				elems = append([]*list.Element[int]{l.PushFront(x)}, elems...)
				model = append([]int{x}, model...)
			case 3:
				if n > 0 {
					i := r.Intn(n)
					if got := l.Remove(elems[i]); got != model[i] {
						return fails("step %d: Remove returned %d, model %d", s, got, model[i]), s
					}
					elems = append(elems[:i:i], elems[i+1:]...)
					model = append(model[:i:i], model[i+1:]...)
				}
			case 4:
				if n > 0 {
					i := r.Intn(n)
					e := l.InsertBefore(x, elems[i])
					elems = append(elems[:i:i], append([]*list.Element[int]{e}, elems[i:]...)...)
					model = append(model[:i:i], append([]int{x}, model[i:]...)...)
				}
			case 5:
				if n > 0 {
					i := r.Intn(n)
					e := l.InsertAfter(x, elems[i])
					elems = append(elems[:i+1:i+1], append([]*list.Element[int]{e}, elems[i+1:]...)...)
					model = append(model[:i+1:i+1], append([]int{x}, model[i+1:]...)...)
				}
			case 6:
				if n > 0 {
					i := r.Intn(n)
					e, v := elems[i], model[i]
					l.MoveToFront(e)
					elems = append([]*list.Element[int]{e}, append(elems[:i:i], elems[i+1:]...)...)
					model = append([]int{v}, append(model[:i:i], model[i+1:]...)...)
				}
			case 7:
				if n > 0 {
					i := r.Intn(n)
					e, v := elems[i], model[i]
					l.MoveToBack(e)
					elems = append(append(elems[:i:i], elems[i+1:]...), e)
					model = append(append(model[:i:i], model[i+1:]...), v)
				}
			case 8:
				if n > 1 {
					i, j := r.Intn(n), r.Intn(n)
					if i != j {
						e, v := elems[i], model[i]
						mark := elems[j]
						l.MoveBefore(e, mark)
						elems = append(elems[:i:i], elems[i+1:]...)
						model = append(model[:i:i], model[i+1:]...)
						pos := 0
						for k := range elems {
							if elems[k] == mark {
								pos = k
							}
						}
						elems = append(elems[:pos:pos], append([]*list.Element[int]{e}, elems[pos:]...)...)
						model = append(model[:pos:pos], append([]int{v}, model[pos:]...)...)
					}
				}
			}
			if l.Len() != len(model) {
				return fails("step %d: Len %d, model %d", s, l.Len(), len(model)), s
			}
			i := 0
			for e := l.Front(); e != nil; e = e.Next() {
				if i >= len(model) || e.Value != model[i] {
					return fails("step %d: forward iteration differs at %d", s, i), s
				}
				i++
			}
			i = len(model) - 1
			for e := l.Back(); e != nil; e = e.Prev() {
				if i < 0 || e.Value != model[i] {
					return fails("step %d: backward iteration differs at %d", s, i), s
				}
				i--
			}
		}
	default:
		panic("harness: C51 kind " + tr.Kind)
	}
	return "", tr.Ops
}

func c51Worker(w *WorkerCtx) {
	kinds := []string{"orderedmap", "orderedset", "intervalst", "bimap", "list"}
	for k := 0; w.TimeLeft(); k++ {
		seed := w.Seed*1000003 + uint64(k)
		r := NewRng(seed)
		tr := c51Trial{Kind: kinds[k%len(kinds)], Seed: seed, Ops: 50 + r.Intn(3000)}
		if w.Tier == "thorough" {
			tr.Ops = 200 + r.Intn(5000)
		}
		if tr.Kind == "orderedset" && tr.Ops > 600 {
			tr.Ops = 600 // every step cross-checks every set
		}
		fail, done := func() (f string, d int) {
			defer func() {
				if rec := recover(); rec != nil {
					f = fmt.Sprintf("panic: %v", rec)
				}
			}()
			return runC51(tr)
		}()
		res := WorkResult{Kind: "item", Seed: seed, Stats: NewRunStats(), Shape: fmt.Sprintf("%s/%d", tr.Kind, seed), NonTrivial: tr.Ops >= 50, Extra: map[string]int{"ops:" + tr.Kind: done}}
		res.Stats.Execs = 1
		if k < 5 {
			res.Sample, _ = json.Marshal(tr)
		}
		if fail != "" {
			// shrink: the shortest failing prefix
			lo, hi := 1, tr.Ops
			for lo < hi {
				mid := (lo + hi) / 2
				t2 := tr
				t2.Ops = mid
				f2, _ := func() (f string, d int) {
					defer func() {
						if rec := recover(); rec != nil {
							f = "panic"
						}
					}()
					return runC51(t2)
				}()
				if f2 != "" {
					hi = mid
				} else {
					lo = mid + 1
				}
			}
			tr.Ops = lo
			fail, _ = runC51safe(tr)
			v := Violation{Property: "C51", Oracle: "model." + tr.Kind, Key: "model:" + tr.Kind, Detail: fmt.Sprintf("%s, seed %d, %d operations: %s", tr.Kind, tr.Seed, tr.Ops, fail)}
			cu, _ := json.Marshal(tr)
			rf := &ReplayFile{Property: "C51", Oracle: v.Oracle, VerifSeed: int64(w.Seed), Tier: w.Tier, Minimised: true, Kind: "c51", Custom: cu, Violation: &v}
			res.Replay = WriteReplay(filepath.Join(outDir(), "replay"), rf, fmt.Sprintf("%s-%d", tr.Kind, seed))
			res.Violations = []Violation{v}
			w.Emit(res)
			return
		}
		w.Emit(res)
	}
}

func runC51safe(tr c51Trial) (f string, d int) {
	defer func() {
		if rec := recover(); rec != nil {
			f = fmt.Sprintf("panic: %v", rec)
		}
	}()
	return runC51(tr)
}

func init() {
	customReplays["c51"] = func(rf *ReplayFile) []Violation {
		var tr c51Trial
		if err := json.Unmarshal(rf.Custom, &tr); err != nil {
			panic("harness: bad c51 replay: " + err.Error())
		}
		if f, _ := runC51safe(tr); f != "" {
			return []Violation{{Property: "C51", Oracle: "model." + tr.Kind, Detail: f}}
		}
		return nil
	}
}
