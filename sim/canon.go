package main

// Canonical, structural rendering of exported cadence values (used to compare with the reference model)
// and the event conformance invariant (C48).

import (
	"fmt"
	"sort"
	"strings"
	_ "unsafe"

	"github.com/onflow/cadence"
)

//go:linkname getCompositeFieldValues github.com/onflow/cadence.getCompositeFieldValues
func getCompositeFieldValues(cadence.Composite) []cadence.Value

//go:linkname getCompositeTypeFields github.com/onflow/cadence.getCompositeTypeFields
func getCompositeTypeFields(cadence.CompositeType) []cadence.Field

func typeID(t cadence.Type) string {
	if t == nil {
		return "<nil-type>"
	}
	return t.ID()
}

// Canon renders a value structurally. Dictionaries are rendered sorted by canonical key.
func Canon(v cadence.Value) string {
	var sb strings.Builder
	canon(&sb, v)
	return sb.String()
}

func canon(sb *strings.Builder, v cadence.Value) {
	switch v := v.(type) {
	case nil:
		sb.WriteString("<nil-value>")
	case cadence.Void:
		sb.WriteString("()")
	case cadence.Optional:
		if v.Value == nil {
			sb.WriteString("nil")
		} else {
			sb.WriteString("?(")
			canon(sb, v.Value)
			sb.WriteString(")")
		}
	case cadence.Bool:
		fmt.Fprintf(sb, "%v", bool(v))
	case cadence.String:
		fmt.Fprintf(sb, "%q", string(v))
	case cadence.Character:
		fmt.Fprintf(sb, "Character(%q)", string(v))
	case cadence.Address:
		sb.WriteString(v.String())
	case cadence.Path:
		sb.WriteString(v.String())
	case cadence.TypeValue:
		sb.WriteString("Type<" + typeID(v.StaticType) + ">")
	case cadence.Capability:
		fmt.Fprintf(sb, "Cap(%d,%s,%s)", uint64(v.ID), v.Address.String(), typeID(v.BorrowType))
	case cadence.Array:
		sb.WriteString("[")
		for i, e := range v.Values {
			if i > 0 {
				sb.WriteString(", ")
			}
			canon(sb, e)
		}
		sb.WriteString("]")
	case cadence.Dictionary:
		type kv struct{ k, v string }
		var kvs []kv
		for _, p := range v.Pairs {
			kvs = append(kvs, kv{Canon(p.Key), Canon(p.Value)})
		}
		sort.Slice(kvs, func(i, j int) bool { return kvs[i].k < kvs[j].k })
		sb.WriteString("{")
		for i, p := range kvs {
			if i > 0 {
				sb.WriteString(", ")
			}
			sb.WriteString(p.k + ": " + p.v)
		}
		sb.WriteString("}")
	case *cadence.InclusiveRange:
		sb.WriteString("Range(")
		canon(sb, v.Start)
		sb.WriteString(",")
		canon(sb, v.End)
		sb.WriteString(",")
		canon(sb, v.Step)
		sb.WriteString(")")
	case cadence.Composite:
		ct, _ := v.Type().(cadence.CompositeType)
		sb.WriteString(typeID(v.Type()))
		sb.WriteString("(")
		var fields []cadence.Field
		if ct != nil {
			fields = getCompositeTypeFields(ct)
		}
		var attParts []string
		first := true
		for i, fv := range getCompositeFieldValues(v) {
			if i < len(fields) {
				if !first {
					sb.WriteString(", ")
				}
				first = false
				sb.WriteString(fields[i].Identifier + ": ")
				canon(sb, fv)
			} else if att, ok := fv.(cadence.Attachment); ok {
				attParts = append(attParts, "$"+typeID(att.Type())+": "+Canon(fv))
			} else {
				attParts = append(attParts, "<extra>: "+Canon(fv))
			}
		}
		// attachments have no declared order: render them sorted by type
		sort.Strings(attParts)
		for _, p := range attParts {
			if !first {
				sb.WriteString(", ")
			}
			first = false
			sb.WriteString(p)
		}
		sb.WriteString(")")
	case cadence.NumberValue:
		sb.WriteString(typeID(v.Type()) + "(" + v.String() + ")")
	case cadence.Function:
		sb.WriteString("fun")
	default:
		fmt.Fprintf(sb, "<%T %s>", v, v.String())
	}
}

// canonObs renders a World.O_<type>(tag: String, v: T?) observation event. The top-level optional is not rendered
// (nil stays nil); for tags starting with "~" the elements of the observed array are sorted (set / multiset observations).
func canonObs(e cadence.Event) string {
	vals := getCompositeFieldValues(e)
	if len(vals) != 2 {
		return fmt.Sprintf("<malformed obs: %d fields>", len(vals))
	}
	tag, _ := vals[0].(cadence.String)
	v := vals[1]
	if o, ok := v.(cadence.Optional); ok && o.Value != nil {
		v = o.Value
	}
	if strings.HasPrefix(string(tag), "~") {
		if a, ok := v.(cadence.Array); ok {
			var parts []string
			for _, x := range a.Values {
				parts = append(parts, Canon(x))
			}
			naturalSort(parts)
			return string(tag) + "=[" + strings.Join(parts, ", ") + "]"
		}
	}
	return string(tag) + "=" + Canon(v)
}

// ---------------------------------------------------------------------------------------------
// C48: event conformance, checked on every EmitEvent of every run.

func checkEventConformance(e cadence.Event) string {
	if e.EventType == nil {
		return "event without type"
	}
	fields := getCompositeTypeFields(e.EventType)
	vals := getCompositeFieldValues(e)
	if len(fields) != len(vals) {
		return fmt.Sprintf("%s: %d values for %d declared fields", e.EventType.ID(), len(vals), len(fields))
	}
	seen := map[string]bool{}
	for i, f := range fields {
		if seen[f.Identifier] {
			return fmt.Sprintf("%s: duplicate field %s", e.EventType.ID(), f.Identifier)
		}
		seen[f.Identifier] = true
		if why := conformsField(vals[i], f.Type); why != "" {
			return fmt.Sprintf("%s.%s: value %s does not conform to %s: %s", e.EventType.ID(), f.Identifier, Canon(vals[i]), typeID(f.Type), why)
		}
	}
	return ""
}

var intRanges = map[string][2]string{}

// conformsField: an event argument is converted to its parameter type when the event is created, so at the top level of a field the
// optional nesting is exact (an `Int?` argument for an `Int??` parameter arrives as Optional(Optional(Int))). Below the optionals
// the covariance-tolerant relation `conforms` applies.
func conformsField(v cadence.Value, t cadence.Type) string {
	if ot, ok := t.(*cadence.OptionalType); ok {
		o, isOpt := v.(cadence.Optional)
		if !isOpt {
			return "expected an optional (declared " + typeID(t) + "), got an unboxed " + fmt.Sprintf("%T", v)
		}
		if o.Value == nil {
			return ""
		}
		if _, innerOpt := ot.Type.(*cadence.OptionalType); innerOpt {
			return conformsField(o.Value, ot.Type)
		}
		if _, stillOpt := o.Value.(cadence.Optional); stillOpt && typeID(ot.Type) != "AnyStruct" && typeID(ot.Type) != "AnyResource" {
			return "more optional levels than declared (" + typeID(t) + ")"
		}
		return conforms(o.Value, ot.Type)
	}
	return conforms(v, t)
}

// conforms is an independent conformance relation between exported values and exported types.
// It returns "" if v conforms to t, else a reason. It is conservative: for type kinds it does not know
// (interfaces, intersections, AnyStruct, references) it accepts.
func conforms(v cadence.Value, t cadence.Type) string {
	if v == nil {
		return "nil Go value"
	}
	switch t := t.(type) {
	case *cadence.OptionalType:
		o, ok := v.(cadence.Optional)
		if !ok {
			// T is a subtype of T?: e.g. an array with run-time type [[Int]] passed where [[Int]?] is declared
			return conforms(v, t.Type)
		}
		if o.Value == nil {
			return ""
		}
		return conforms(o.Value, t.Type)
	case *cadence.VariableSizedArrayType:
		a, ok := v.(cadence.Array)
		if !ok {
			return "expected array"
		}
		for _, e := range a.Values {
			if why := conforms(e, t.ElementType); why != "" {
				return why
			}
		}
		return ""
	case *cadence.ConstantSizedArrayType:
		a, ok := v.(cadence.Array)
		if !ok {
			return "expected array"
		}
		if uint(len(a.Values)) != t.Size {
			return "wrong constant array size"
		}
		for _, e := range a.Values {
			if why := conforms(e, t.ElementType); why != "" {
				return why
			}
		}
		return ""
	case *cadence.DictionaryType:
		d, ok := v.(cadence.Dictionary)
		if !ok {
			return "expected dictionary"
		}
		for _, p := range d.Pairs {
			if why := conforms(p.Key, t.KeyType); why != "" {
				return why
			}
			if why := conforms(p.Value, t.ElementType); why != "" {
				return why
			}
		}
		return ""
	case *cadence.StructType, *cadence.ResourceType, *cadence.EnumType, *cadence.EventType, *cadence.ContractType, *cadence.AttachmentType:
		c, ok := v.(cadence.Composite)
		if !ok {
			return "expected composite"
		}
		if typeID(c.Type()) != t.ID() {
			return "composite type id " + typeID(c.Type()) + " != " + t.ID()
		}
		return ""
	case *cadence.CapabilityType:
		if _, ok := v.(cadence.Capability); !ok {
			return "expected capability"
		}
		return ""
	case *cadence.ReferenceType, *cadence.IntersectionType, *cadence.StructInterfaceType, *cadence.ResourceInterfaceType, *cadence.FunctionType:
		return ""
	}
	// simple types, by ID
	id := typeID(t)
	switch id {
	case "AnyStruct", "AnyResource", "HashableStruct", "StructStringer", "AnyStructAttachment", "AnyResourceAttachment":
		if _, ok := v.(cadence.Optional); ok {
			return "" // optionals are AnyStruct
		}
		return ""
	case "String":
		if _, ok := v.(cadence.String); !ok {
			return "expected String"
		}
	case "Character":
		if _, ok := v.(cadence.Character); !ok {
			return "expected Character"
		}
	case "Bool":
		if _, ok := v.(cadence.Bool); !ok {
			return "expected Bool"
		}
	case "Address":
		if _, ok := v.(cadence.Address); !ok {
			return "expected Address"
		}
	case "Type":
		if _, ok := v.(cadence.TypeValue); !ok {
			return "expected Type"
		}
	case "Path", "StoragePath", "PublicPath", "PrivatePath", "CapabilityPath":
		p, ok := v.(cadence.Path)
		if !ok {
			return "expected Path"
		}
		switch id {
		case "StoragePath":
			if p.Domain.Identifier() != "storage" {
				return "expected storage path"
			}
		case "PublicPath":
			if p.Domain.Identifier() != "public" {
				return "expected public path"
			}
		}
	case "Void":
		if _, ok := v.(cadence.Void); !ok {
			return "expected Void"
		}
	case "Never":
		return "value of type Never"
	case "Number", "SignedNumber", "Integer", "SignedInteger", "FixedPoint", "SignedFixedPoint", "FixedSizeUnsignedInteger":
		if _, ok := v.(cadence.NumberValue); !ok {
			return "expected number"
		}
	default:
		if n, ok := v.(cadence.NumberValue); ok {
			if typeID(n.Type()) != id {
				return "number of type " + typeID(n.Type()) + " where " + id + " expected"
			}
			return ""
		}
		// a concrete numeric type expected but something else given
		switch id {
		case "Int", "Int8", "Int16", "Int32", "Int64", "Int128", "Int256", "UInt", "UInt8", "UInt16", "UInt32", "UInt64", "UInt128", "UInt256",
			"Word8", "Word16", "Word32", "Word64", "Word128", "Word256", "Fix64", "UFix64", "Fix128", "UFix128":
			return "expected " + id
		}
	}
	return ""
}

// naturalSort orders canonical element strings by (length, bytes): numbers of one type sort numerically.
func naturalSort(parts []string) {
	sort.Slice(parts, func(i, j int) bool {
		if len(parts[i]) != len(parts[j]) {
			return len(parts[i]) < len(parts[j])
		}
		return parts[i] < parts[j]
	})
}
