package main

// Per-property generator presets (swarm: the rest is drawn per plan from the PRNG).

func baseCfg(prop string, r *Rng) GenCfg {
	c := GenCfg{
		Property: prop, Families: map[string]int{}, Steps: 12 + r.Intn(20), MaxOps: 2 + r.Intn(6), NAccts: 2 + r.Intn(2), NPaths: 4 + r.Intn(5),
		FailRate: 0.12, ScriptRate: 0.15, FaultRate: 0.25, NoiseRate: 0.2, RestartRate: 0.04, EvictRate: 0.04, BigRate: 0.08,
		FaultKinds: []string{"F1", "F2", "F3", "F4"}, Nodes: defaultNodes(),
	}
	if r.Chance(0.3) {
		c.BigRate = 0.3
	}
	if r.Chance(0.2) {
		// a small configured call-depth limit on every node (all nodes alike, so they must still agree); no operation of the
		// library nests deeper than ~160 calls
		nodes := append([]NodeConfig{}, c.Nodes...)
		for i := range nodes {
			nodes[i].StackDepthLimit = 256
		}
		c.Nodes = nodes
		c.DeepCalls = true
	}
	return c
}

func cfgFor(prop string, r *Rng) GenCfg {
	c := baseCfg(prop, r)
	f := c.Families
	switch prop {
	case "C22":
		f["storage"], f["resource"], f["control"] = 10, 2, 1
		c.ScnRate = 0.1
	case "C23":
		f["storage"], f["resource"], f["container"], f["attachment"] = 3, 6, 4, 1
		f["contract"], f["capability"] = 2, 2 // contract values and capability controllers live in storage domains of their own
		c.BigRate = 0.3
		c.ScnRate = 0.1
	case "C24":
		f["storage"], f["resource"], f["container"], f["control"] = 4, 3, 2, 2
		f["contract"], f["capability"], f["hostsvc"] = 2, 1, 1 // program effects other than storage writes that reach the host mid-execution
		c.ScriptRate, c.FaultRate, c.FailRate = 0.3, 0.5, 0.25
	case "C28":
		f["storage"], f["resource"], f["container"], f["attachment"], f["event"], f["control"] = 3, 3, 2, 1, 1, 1
		c.FaultRate, c.FaultKinds, c.NoiseRate = 0.6, []string{"F1", "F2"}, 0.05
	case "C02":
		f["resource"], f["attachment"], f["storage"] = 10, 2, 1
		c.ScnRate = 0.2
	case "C05":
		f["copy"], f["storage"] = 10, 1
		c.ScnRate = 0.15
	case "C20":
		f["container"], f["storage"] = 12, 1
		c.BigRate = 0.25
	case "C48":
		f["event"], f["resource"], f["attachment"], f["storage"] = 4, 5, 3, 1
		f["contract"] = 6 // contracts whose event declarations change with updates
		c.ScnRate = 0.15
	case "C49":
		f["attachment"], f["resource"] = 10, 3
		c.ScnRate = 0.12
	case "C25":
		f["capability"], f["storage"], f["resource"] = 12, 2, 1
		c.BigRate = 0.25
	case "C26":
		f["contract"], f["storage"] = 10, 1
	default: // everything at once: C01, C31, C33, C34 and the shared sweeps
		f["storage"], f["resource"], f["container"], f["copy"], f["attachment"], f["event"], f["control"] = 4, 4, 4, 2, 2, 1, 1
		f["capability"], f["contract"], f["hostsvc"] = 3, 2, 2
		c.ScnRate = 0.3
	}
	if c.DeepCalls {
		f["control"] += 4
	}
	// atree validation (a debug configuration, quadratic in container size) only on small-value plans, and only sometimes
	if c.BigRate > 0.1 || !r.Chance(0.4) {
		nodes := append([]NodeConfig{}, c.Nodes...)
		for i := range nodes {
			nodes[i].AtreeValidation = false
		}
		c.Nodes = nodes
	}
	return c
}
