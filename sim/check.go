package main

// Check driver: `sim check` forks worker processes with derived seeds, aggregates their results into the
// evidence file, classifies violations against known_findings.json and prints VIOLATION / KNOWN-FINDING lines.

import (
	"bufio"
	"encoding/json"
	"flag"
	"fmt"
	"os"
	"os/exec"
	"path/filepath"
	"sort"
	"strconv"
	"strings"
	"sync"
	"time"
)

type WorkResult struct {
	Kind       string          `json:"kind"` // "plan" | "item" | "done" | "harness-error"
	Seed       uint64          `json:"seed"`
	Shape      string          `json:"shape,omitempty"`
	NonTrivial bool            `json:"nontrivial"`
	Stats      *RunStats       `json:"stats,omitempty"`
	Violations []Violation     `json:"violations,omitempty"` // of the checked property
	Foreign    map[string]int  `json:"foreign,omitempty"`    // violations of other properties seen in shared runs
	ForeignEx  map[string]string `json:"foreign_ex,omitempty"` // one example per foreign property (diagnostics only)
	Replay     string          `json:"replay,omitempty"`
	Sample     json.RawMessage `json:"sample,omitempty"`
	Extra      map[string]int  `json:"extra,omitempty"`
	Msg        string          `json:"msg,omitempty"`
}

type KnownFinding struct {
	Property string `json:"property,omitempty"`
	Oracle   string `json:"oracle,omitempty"`
	Key      string `json:"key,omitempty"`    // prefix of Violation.Key
	Engine   string `json:"engine,omitempty"` // "vm" matches vm and vmpeep
	Contains string `json:"contains,omitempty"`
	What     string `json:"what,omitempty"`
	Status   string `json:"status,omitempty"`
	Fixed    string `json:"fixed,omitempty"` // "fixed: property=<id> <commit> <what failed>": documents a repaired defect, matches nothing
}

func verifDir() string {
	if d := os.Getenv("VERIF_DIR"); d != "" {
		return d
	}
	exe, err := os.Executable()
	if err == nil {
		d := filepath.Dir(filepath.Dir(exe))
		if _, err := os.Stat(filepath.Join(d, "properties.jsonl")); err == nil {
			return d
		}
	}
	return "/verif"
}

// outDir: where evidence/ and replay/ are written (VERIF_OUT, default: the verif directory)
func outDir() string {
	if d := os.Getenv("VERIF_OUT"); d != "" {
		return d
	}
	return verifDir()
}

func loadKnown() []KnownFinding {
	b, err := os.ReadFile(filepath.Join(verifDir(), "known_findings.json"))
	if err != nil {
		return nil
	}
	var ks []KnownFinding
	if err := json.Unmarshal(b, &ks); err != nil {
		fmt.Fprintln(os.Stderr, "harness: known_findings.json does not parse:", err)
		os.Exit(2)
	}
	return ks
}

func (k KnownFinding) Matches(v Violation, engine string) bool {
	if k.Fixed != "" || k.Property == "" {
		return false
	}
	if k.Property != v.Property {
		return false
	}
	if k.Oracle != "" && k.Oracle != v.Oracle {
		return false
	}
	if k.Key != "" && !strings.HasPrefix(v.Key, k.Key) {
		return false
	}
	if k.Engine != "" && !strings.HasPrefix(engine, k.Engine) {
		return false
	}
	if k.Contains != "" && !strings.Contains(v.Detail, k.Contains) {
		return false
	}
	return true
}

// ---------------------------------------------------------------------------------------------

type CheckSpec struct {
	Prop       string
	Level      string
	Rule       string
	Assumptions []string
	QuickBudget, ThoroughBudget time.Duration
	Worker     func(w *WorkerCtx) // runs in the worker process
	Workers    int                // 0 = all cores
	VaryCPUs   bool               // run workers under different CPU affinities / GOMAXPROCS (F11)
	DeathIsViolation bool         // C30: a worker process that dies (e.g. Go stack overflow) is the violation, not a harness error
	Post       func(extra map[string]int) []Violation // cross-worker oracle evaluated by the parent on the merged extras
}

type WorkerCtx struct {
	Prop    string
	Tier    string
	Seed    uint64 // derived worker seed
	Index   int
	Budget  time.Duration
	Start   time.Time
	out     *bufio.Writer
	mu      sync.Mutex
}

func (w *WorkerCtx) Emit(r WorkResult) {
	w.mu.Lock()
	defer w.mu.Unlock()
	b, _ := json.Marshal(r)
	w.out.Write(b)
	w.out.WriteString("\n")
	w.out.Flush()
}

func (w *WorkerCtx) TimeLeft() bool { return time.Since(w.Start) < w.Budget }

var checks = map[string]*CheckSpec{}

func registerPlanCheck(prop, level, rule string, quick, thorough time.Duration, assumptions ...string) {
	checks[prop] = &CheckSpec{Prop: prop, Level: level, Rule: rule, QuickBudget: quick, ThoroughBudget: thorough, Assumptions: assumptions, Worker: planWorker}
}

const realStub = "real code: all of Cadence (parser, checker, interpreter, compiler, VM, stdlib, runtime) and atree; stubbed: the host (ledger, accounts/keys, crypto, block info, program cache, code store)"

func init() {
	planRule := func(fam string) string {
		return "plans drawn from VERIF_SEED (swarm: families, sizes, fault kinds, node schedules per plan) over the " + fam + " operation families; executed on a clean primary and 5 shadow replicas (interp/vm/vm+peephole, cold/warm cache, env reuse, restarts, evictions, noise, faulted attempts F1-F4); a plan is distinct by its shape hash (op kinds + fault sites) and non-trivial if it committed >= 3 transactions and contained an operation of the property's family"
	}
	registerPlanCheck("C22", "exploration", planRule("storage"), 50*time.Second, 12*time.Minute, realStub)
	registerPlanCheck("C23", "exploration", planRule("storage/resource/container/attachment"), 50*time.Second, 12*time.Minute, realStub)
	registerPlanCheck("C24", "exploration", planRule("storage/resource/container/control (scripts 30 %, faulted attempts 50 %)"), 50*time.Second, 12*time.Minute, realStub)
	registerPlanCheck("C02", "exploration", planRule("resource/attachment"), 50*time.Second, 12*time.Minute, realStub)
	registerPlanCheck("C05", "exploration", planRule("copy"), 50*time.Second, 12*time.Minute, realStub)
	registerPlanCheck("C20", "exploration", planRule("container"), 50*time.Second, 12*time.Minute, realStub)
	registerPlanCheck("C48", "exploration", planRule("event/resource/attachment"), 50*time.Second, 12*time.Minute, realStub)
	registerPlanCheck("C49", "exploration", planRule("attachment/resource"), 50*time.Second, 12*time.Minute, realStub)
	registerPlanCheck("C01", "exploration", planRule("all"), 50*time.Second, 12*time.Minute, realStub)
	registerPlanCheck("C33", "exploration", planRule("all"), 50*time.Second, 12*time.Minute, realStub)
	registerPlanCheck("C34", "translation_validation", planRule("all"), 50*time.Second, 12*time.Minute, realStub)
	registerPlanCheck("C31", "exploration", planRule("all"), 50*time.Second, 12*time.Minute, realStub)
	registerPlanCheck("C26", "exploration", planRule("contract lifecycle"), 50*time.Second, 12*time.Minute, realStub)
	registerPlanCheck("C25", "exploration", planRule("capability (issue/retarget/tag/delete, derived capabilities, publish/unpublish/get/borrow, inbox)"), 50*time.Second, 12*time.Minute, realStub)
	checks["C26"].Worker = c26Worker
	checks["C35"] = &CheckSpec{Prop: "C35", Level: "exploration", QuickBudget: 60 * time.Second, ThoroughBudget: 10 * time.Minute, VaryCPUs: true, Post: c35Post,
		Assumptions: []string{realStub, "the compiled program is read through the verif hook runtime.VerifCompiledProgram and rendered with bbq's own program printer plus the raw function / contract / variable / global / type tables", "the sweep over randomly constructed instructions is input generation and not part of this check; only instructions the compiler emitted are round-tripped"},
		Rule:   "the same 6 (thorough: 60) seeded histories over all operation families are compiled in every worker process (16 processes under CPU affinity 1/4/16 and GOMAXPROCS 1/2/4/16) on 5 VM replicas each (cold/warm cache, reused/fresh environment, with/without peephole); after every step the rendering of every cached compiled program is compared between replicas, a digest of all renderings between processes, and every emitted instruction is encoded, decoded and re-encoded; an evaluation is one (history, process) pair, non-trivial if more than 3 programs were rendered",
		Worker: c35Worker}
	checks["C51"] = &CheckSpec{Prop: "C51", Level: "exploration", QuickBudget: 25 * time.Second, ThoroughBudget: 8 * time.Minute,
		Assumptions: []string{"real code: common/orderedmap, common/persistent, common/intervalst, common/bimap, common/list; nothing is stubbed; there are no faults to inject (pure in-memory code): the only nondeterminism, the interval tree's math/rand insertion, is seeded (go:debug randseednop=0 + rand.Seed) and varied over 4 tree shapes per sequence"},
		Rule:   "seeded operation sequences of 50..3000 (thorough: ..5000) operations per collection against list / map models with a full cross-check (iteration order both ways, lookups, sizes, set algebra, parent chains and clones of persistent sets) after every operation; distinct by (collection, seed); non-trivial from 50 operations on; a failing sequence is shrunk to its shortest failing prefix",
		Worker: c51Worker}
	checks["C36"] = &CheckSpec{Prop: "C36", Level: "exploration", QuickBudget: 60 * time.Second, ThoroughBudget: 12 * time.Minute, Workers: 8,
		Assumptions: []string{realStub, "mode R does not replay a schedule (rr is unavailable): a race report is a happens-before fact and therefore never a false alarm; the replay file carries job and report and replay re-runs the job up to 10 times"},
		Rule:   "jobs drawn from the seed: 2..16 worker goroutines x 2..4 generated scripts each (13 templates: entitlement-mapped member access, casts and run-time types, Account built-ins, attachments, resources and events, fully entitled `result`, entitlements through interfaces and intersection types, members of built-in types, ill-typed and failing programs) over a shared program cache; 1/3 of the jobs run in mode S (seeded scheduler, one worker released per runtime.Interface callback, executed twice to confirm the schedule is a function of the seed), 2/3 in mode R (fresh -race process with cold caches, GOMAXPROCS 2/4/16; in half of the mode-R jobs the first script of every worker instantiates the same template, so that all workers reach the same cold lazily initialised caches together); oracle: every script behaves as when run alone (after the concurrent phase), no race report, no crash; distinct by (mode, engine, workers, seed)",
		Worker: c36Worker}
	checks["C30"] = &CheckSpec{Prop: "C30", Level: "exploration", QuickBudget: 60 * time.Second, ThoroughBudget: 10 * time.Minute, Assumptions: []string{realStub, "the metering limits are realised as gauge budgets (the n-th metering call and every later one fails), the call-depth limit through Config.StackDepthLimit"}, DeathIsViolation: true,
		Rule:   "runaway corpus (11 unbounded loops / growth programs, 9 recursion shapes: functions, mutual, struct / resource initialisers, default functions, conditions, attachments, script functions) x engine x (computation | memory budget drawn around 0, 40, 700, 9e3, 1.2e5 metering calls) and x configured call-depth limit (default, 50, 300) x recursion depth around the limit; each trial in a worker process with a watchdog of 180 s + 60 us per unit of the budget; a hang or a dead worker process is reported as the violation; distinct by (program, engine, budget, depth, limit)",
		Worker: c30Worker}
	checks["C27"] = &CheckSpec{Prop: "C27", Level: "exploration", QuickBudget: 60 * time.Second, ThoroughBudget: 10 * time.Minute, Assumptions: []string{realStub},
		Rule:   "every mutation of a fixed grammar of 45 contract-update mutations (field add/remove/retype/reorder/rename, access and let changes, conformance add/remove, kind change, nested declaration add/remove with and without #removedType, enum case add/remove/reorder/rename, raw type change, interface changes) x engine (interp, vm) x update|tryUpdate x restart|warm process; history: deploy v1, store struct / array / dictionary / resource / enum / interface-typed instances in two accounts, update, (restart), probe script generated from the new declaration; a trial is non-trivial always; distinct by (mutation, engine, via, restart)",
		Worker: c27Worker}
	for _, p := range []string{"C33", "C31", "C34", "C01"} {
		checks[p].VaryCPUs = true
	}
	checks["C28"] = &CheckSpec{Prop: "C28", Level: "fault_enumeration", QuickBudget: 40 * time.Second, ThoroughBudget: 12 * time.Minute, Assumptions: []string{realStub},
		Rule:   "corpus of executions reaching every runtime.Interface method Cadence calls (checked: a required method never called is a harness error); for every corpus item x engine (interp, vm; thorough: +vm with peephole) one clean run, then a re-execution from the same ledger for EVERY callback index with an injected error and an injected panic (thorough: + string panic, sticky error, fault pairs inside/after tryUpdate); an evaluation is one (item, engine) pair or one seeded plan, non-trivial if at least one fault fired; afterwards seeded plans with host faults in histories for the rest of the budget",
		Worker: c28Worker}
}

// familyOf: the op family whose presence makes a plan non-trivial for the property
func propFamilies(prop string) []string {
	switch prop {
	case "C22", "C24":
		return []string{"storage"}
	case "C23":
		return []string{"storage", "resource", "container"}
	case "C02":
		return []string{"resource"}
	case "C05":
		return []string{"copy"}
	case "C20":
		return []string{"container"}
	case "C48":
		return []string{"event", "resource"}
	case "C49":
		return []string{"attachment"}
	case "C25":
		return []string{"capability"}
	case "C26":
		return []string{"contract"}
	}
	return nil
}

func planWorker(w *WorkerCtx) {
	known := loadKnown()
	for k := 0; w.TimeLeft(); k++ {
		seed := w.Seed*1000003 + uint64(k)
		r := NewRng(seed)
		g := &Gen{R: r, Cfg: cfgFor(w.Prop, r)}
		p := g.Plan(seed)
		run := RunPlan(p, RunOpts{Health: true, Readback: true, Only: w.Prop})
		res := WorkResult{Kind: "plan", Seed: seed, Shape: p.Shape(), Stats: run.Stats, Foreign: map[string]int{}}
		fams := propFamilies(w.Prop)
		hasFam := len(fams) == 0
		for _, st := range p.Steps {
			for _, o := range st.Ops {
				for _, f := range fams {
					if o.Family() == f {
						hasFam = true
					}
				}
			}
		}
		res.NonTrivial = hasFam && run.Stats.Committed >= 3
		var own []Violation
		for _, v := range run.V {
			if v.Property == w.Prop {
				own = append(own, v)
			} else {
				res.Foreign[v.Property]++
				if res.ForeignEx == nil {
					res.ForeignEx = map[string]string{}
				}
				if res.ForeignEx[v.Property] == "" {
					res.ForeignEx[v.Property] = fmt.Sprintf("plan_seed=%d %s", seed, clip(v.String(), 600))
				}
			}
		}
		if k == 0 {
			res.Sample = planSample(p)
		}
		if len(own) > 0 {
			v := own[0]
			engine := v.Engine
			isKnown := false
			for _, kf := range known {
				if kf.Matches(v, engine) {
					isKnown = true
				}
			}
			if isKnown {
				res.Violations = []Violation{v}
				res.Replay = ""
			} else {
				min := ShrinkPlan(p, v, time.Duration(float64(w.Budget)*0.5)+20*time.Second)
				rr := RunPlan(min.Clone(), RunOpts{Health: true, Readback: true, Only: w.Prop})
				mv := v
				for _, x := range rr.V {
					if x.Property == v.Property && x.Oracle == v.Oracle {
						mv = x
						break
					}
				}
				rf := &ReplayFile{Property: w.Prop, Oracle: mv.Oracle, VerifSeed: int64(w.Seed), Tier: w.Tier, Minimised: true, Kind: "plan", Plan: min, Violation: &mv}
				res.Replay = WriteReplay(filepath.Join(outDir(), "replay"), rf, fmt.Sprintf("%d", seed))
				res.Violations = []Violation{mv}
				res.Sample = planSample(min)
			}
			w.Emit(res)
			if !isKnown {
				return
			}
			continue
		}
		w.Emit(res)
	}
}

func nodeEngine(p *Plan, name string) string {
	for _, n := range p.Nodes {
		if n.Name == name {
			return n.Engine
		}
	}
	return ""
}

func planSample(p *Plan) json.RawMessage {
	type sstep struct {
		Kind     string   `json:"kind"`
		Ops      []string `json:"ops,omitempty"`
		Faults   []string `json:"faults,omitempty"`
		Noise    int      `json:"noise,omitempty"`
	}
	var steps []sstep
	for i, s := range p.Steps {
		if i > 14 {
			break
		}
		ss := sstep{Kind: s.Kind}
		for _, o := range s.Ops {
			d := o.K
			if o.P != "" {
				d += fmt.Sprintf("(0x%d/%s)", o.A, o.P)
			}
			if len(o.Sub) > 0 {
				var subs []string
				for _, su := range o.Sub {
					subs = append(subs, su.S)
				}
				d += "[" + strings.Join(subs, ",") + "]"
			}
			ss.Ops = append(ss.Ops, d)
		}
		for _, n := range sortedAttemptKeys(s.Attempts) {
			for _, a := range s.Attempts[n] {
				for _, f := range a.Faults {
					ss.Faults = append(ss.Faults, n+":"+f.String())
				}
			}
		}
		for _, ns := range s.Noise {
			ss.Noise += len(ns)
		}
		steps = append(steps, ss)
	}
	var nodes []string
	for _, n := range p.Nodes {
		nodes = append(nodes, fmt.Sprintf("%s:%s/%s", n.Name, n.Engine, n.Cache))
	}
	b, _ := json.Marshal(map[string]any{"plan_seed": p.Seed, "nodes": nodes, "steps_total": len(p.Steps), "first_steps": steps})
	return b
}

// ---------------------------------------------------------------------------------------------
// parent

func cmdCheck(args []string) int {
	fs := flag.NewFlagSet("check", flag.ExitOnError)
	prop := fs.String("prop", "", "property id")
	tier := fs.String("tier", "quick", "quick|thorough")
	seedFlag := fs.Int64("seed", -1, "VERIF_SEED override")
	workers := fs.Int("workers", 0, "worker processes (default: cores)")
	budget := fs.Duration("budget", 0, "override time budget per worker")
	fs.Parse(args)
	spec := checks[*prop]
	if spec == nil {
		fmt.Fprintln(os.Stderr, "harness: no check registered for", *prop)
		return 2
	}
	if t := os.Getenv("VERIF_TIER"); t != "" && *tier == "" {
		*tier = t
	}
	seed := int64(1)
	if s := os.Getenv("VERIF_SEED"); s != "" {
		if v, err := strconv.ParseInt(s, 10, 64); err == nil {
			seed = v
		}
	}
	if *seedFlag >= 0 {
		seed = *seedFlag
	}
	fmt.Printf("VERIF_SEED=%d property=%s tier=%s\n", seed, *prop, *tier)
	nw := *workers
	if nw == 0 {
		nw = spec.Workers
	}
	if nw == 0 {
		nw = numCPU()
	}
	b := spec.QuickBudget
	if *tier == "thorough" {
		b = spec.ThoroughBudget
	}
	if *budget > 0 {
		b = *budget
	}
	start := time.Now()
	exe, _ := os.Executable()
	var mu sync.Mutex
	var results []WorkResult
	harnessErr := ""
	var wg sync.WaitGroup
	for i := 0; i < nw; i++ {
		wg.Add(1)
		go func(i int) {
			defer wg.Done()
			ws := uint64(seed)*7919 + uint64(i) + 1
			wargs := []string{exe, "worker", "-prop", *prop, "-tier", *tier, "-seed", fmt.Sprint(ws), "-index", fmt.Sprint(i), "-budget", b.String()}
			env := append(os.Environ(), "VERIF_DIR="+verifDir())
			// F11, process-level variation: some workers run pinned to 1 or 4 CPUs (runtime.NumCPU follows the affinity mask)
			// and with GOMAXPROCS 1/4; the workload of a worker does not depend on it, only the code under test can.
			if spec.VaryCPUs {
				switch i % 4 {
				case 0:
					wargs = append([]string{"taskset", "-c", fmt.Sprint(i % numCPU())}, wargs...)
				case 1:
					lo := (i / 4 * 4) % numCPU()
					wargs = append([]string{"taskset", "-c", fmt.Sprintf("%d-%d", lo, min(lo+3, numCPU()-1))}, wargs...)
				case 2:
					env = append(env, "GOMAXPROCS=2")
				}
			}
			cmd := exec.Command(wargs[0], wargs[1:]...)
			cmd.Env = env
			stdout, _ := cmd.StdoutPipe()
			var stderr strings.Builder
			cmd.Stderr = &stderr
			if err := cmd.Start(); err != nil {
				mu.Lock()
				harnessErr = "cannot start worker: " + err.Error()
				mu.Unlock()
				return
			}
			// watchdog: a worker that overruns its budget massively is a harness problem (exit 2), never a violation
			done := make(chan struct{})
			go func() {
				select {
				case <-done:
				case <-time.After(b*3 + 10*time.Minute):
					cmd.Process.Kill()
				}
			}()
			sc := bufio.NewScanner(stdout)
			sc.Buffer(make([]byte, 1<<20), 1<<28)
			var lastBegin json.RawMessage
			for sc.Scan() {
				var r WorkResult
				if err := json.Unmarshal(sc.Bytes(), &r); err != nil {
					continue
				}
				if r.Kind == "begin" {
					lastBegin = r.Sample
					continue
				}
				mu.Lock()
				results = append(results, r)
				mu.Unlock()
			}
			err := cmd.Wait()
			close(done)
			if err != nil && spec.DeathIsViolation && lastBegin != nil {
				v := Violation{Property: spec.Prop, Oracle: "process-survives", Key: "process-died", Detail: fmt.Sprintf("the worker process died (%v) while executing trial %s: %s", err, string(lastBegin), clip(lastLines(stderr.String(), 12), 1500))}
				rf := &ReplayFile{Property: spec.Prop, Oracle: v.Oracle, VerifSeed: seed, Tier: *tier, Kind: "c30", Custom: lastBegin, Violation: &v}
				path := WriteReplay(filepath.Join(outDir(), "replay"), rf, fmt.Sprintf("died-worker%d", i))
				mu.Lock()
				results = append(results, WorkResult{Kind: "item", Violations: []Violation{v}, Replay: path, NonTrivial: true, Shape: "died"})
				mu.Unlock()
				return
			}
			if err != nil {
				mu.Lock()
				harnessErr = fmt.Sprintf("worker %d died: %v\n%s", i, err, clip(stderr.String(), 4000))
				mu.Unlock()
			}
		}(i)
	}
	wg.Wait()
	wall := time.Since(start).Seconds()
	if harnessErr != "" {
		// a crashed worker on a property about crashes (C01) is still a harness-level event here: workers recover panics of
		// the code under test themselves; anything that kills the process is reported as exit 2 with the output
		fmt.Fprintln(os.Stderr, "HARNESS-ERROR:", harnessErr)
		return 2
	}
	return aggregate(spec, *tier, seed, results, wall)
}

func aggregate(spec *CheckSpec, tier string, seed int64, results []WorkResult, wall float64) int {
	known := loadKnown()
	total := NewRunStats()
	shapes := map[string]bool{}
	ntShapes := map[string]bool{}
	foreign := map[string]int{}
	foreignEx := map[string]string{}
	extra := map[string]int{}
	samples := []json.RawMessage{}
	evals := 0
	var viols []WorkResult
	knownHits := map[string]int{}
	knownWhat := map[string]string{}
	for _, r := range results {
		if r.Kind == "harness-error" {
			fmt.Fprintln(os.Stderr, "HARNESS-ERROR:", r.Msg)
			return 2
		}
		evals++
		if r.Stats != nil {
			total.Merge(r.Stats)
		}
		if r.Shape != "" {
			shapes[r.Shape] = true
			if r.NonTrivial {
				ntShapes[r.Shape] = true
			}
		}
		for k, v := range r.Foreign {
			foreign[k] += v
		}
		for k, v := range r.ForeignEx {
			if foreignEx[k] == "" {
				foreignEx[k] = v
			}
		}
		for k, v := range r.Extra {
			if strings.HasPrefix(k, "max_") {
				if v > extra[k] {
					extra[k] = v
				}
			} else {
				extra[k] += v
			}
		}
		if len(r.Sample) > 0 && len(samples) < 4 {
			samples = append(samples, r.Sample)
		}
		if len(r.Violations) > 0 {
			v := r.Violations[0]
			isKnown := false
			for _, kf := range known {
				if kf.Matches(v, violationEngine(v)) {
					isKnown = true
					id := kf.Property + ":" + kf.Key + ":" + kf.Engine
					knownHits[id]++
					knownWhat[id] = kf.What
				}
			}
			if !isKnown {
				viols = append(viols, r)
			}
		}
	}
	if spec.Post != nil {
		for _, v := range spec.Post(extra) {
			vc := v
			rf := &ReplayFile{Property: spec.Prop, Oracle: v.Oracle, VerifSeed: seed, Tier: tier, Kind: "post", Violation: &vc}
			path := WriteReplay(filepath.Join(outDir(), "replay"), rf, "cross-process")
			viols = append(viols, WorkResult{Violations: []Violation{v}, Replay: path})
		}
		for k := range extra {
			if strings.HasPrefix(k, "digest:") {
				delete(extra, k)
			}
		}
	}
	// evidence
	cov := map[string]any{
		"evaluations":         evals,
		"distinct_nontrivial": len(ntShapes),
		"rule":                spec.Rule,
		"samples":             samples,
		"distinct_plan_shapes": len(shapes),
		"distinct_model_states": len(total.ModelStates),
		"executions":          total.Execs,
		"steps":               total.Steps,
		"committed_steps":     total.Committed,
		"predicted_failures":  total.PredictedFails,
		"scripts":             total.Scripts,
		"aborted_attempts":    total.AbortedAttempts,
		"attempts_not_fired":  total.NotFired,
		"restarts":            total.Restarts,
		"evictions":           total.Evictions,
		"noise_runs":          total.NoiseRuns,
		"sim_blocks":          total.SimBlocks,
		"plans_by_cpu_config": total.NumCPU,
		"health_checks":       total.HealthChecks,
		"readbacks":           total.Readbacks,
		"host_calls":          total.HostCalls,
		"gauge_calls":         total.GaugeCalls,
		"faults_fired":        total.FaultsFired,
		"probes":              total.Probes,
		"executions_by_engine": total.ByEngine,
		"op_kinds":            total.OpKinds,
		"predicted_failure_kinds": total.FailKinds,
		"foreign_violations":  foreign,
		"foreign_violation_examples": foreignEx,
		"known_findings_hit":  knownHits,
		"extra":               extra,
		"runs_per_hour":       int(float64(evals) / wall * 3600),
		"executions_per_hour": int(float64(total.Execs) / wall * 3600),
		"components":          realStub,
	}
	var coverageHoles []string
	for _, k := range []string{"F1_host_error", "F2_host_panic", "F3_memory_limit", "F4_computation_limit"} {
		if _, planBased := checks[spec.Prop]; planBased && spec.Worker != nil && total.Execs > 0 && total.FaultsFired[k] == 0 && spec.Level != "other" {
			coverageHoles = append(coverageHoles, k)
		}
	}
	cov["coverage_holes"] = coverageHoles
	ev := map[string]any{
		"property_id": spec.Prop,
		"tier":        tier,
		"seed":        seed,
		"level":       spec.Level,
		"coverage":    cov,
		"assumptions": spec.Assumptions,
		"wall_s":      wall,
		"violations":  len(viols),
	}
	b, _ := json.MarshalIndent(ev, "", " ")
	os.MkdirAll(filepath.Join(outDir(), "evidence"), 0o755)
	if err := os.WriteFile(filepath.Join(outDir(), "evidence", spec.Prop+".json"), b, 0o644); err != nil {
		fmt.Fprintln(os.Stderr, "HARNESS-ERROR: cannot write evidence:", err)
		return 2
	}
	var ids []string
	for id := range knownHits {
		ids = append(ids, id)
	}
	sort.Strings(ids)
	for _, id := range ids {
		fmt.Printf("KNOWN-FINDING: property=%s %s (seen %d times)\n", spec.Prop, knownWhat[id], knownHits[id])
	}
	fmt.Printf("%s %s: %d evaluations, %d distinct non-trivial, %d executions, %.1fs, foreign=%v\n", spec.Prop, tier, evals, len(ntShapes), total.Execs, wall, foreign)
	if evals == 0 {
		fmt.Fprintln(os.Stderr, "HARNESS-ERROR: no evaluation completed")
		return 2
	}
	if len(viols) > 0 {
		for _, r := range viols {
			fmt.Printf("VIOLATION property=%s replay=%s\n", spec.Prop, r.Replay)
			fmt.Printf("  %s\n", clip(r.Violations[0].String(), 2000))
		}
		return 1
	}
	return 0
}

func violationEngine(v Violation) string { return v.Engine }

func lastLines(s string, n int) string {
	ls := strings.Split(strings.TrimSpace(s), "\n")
	if len(ls) > n {
		ls = ls[:n]
	}
	return strings.Join(ls, "\n")
}

func cmdWorker(args []string) int {
	fs := flag.NewFlagSet("worker", flag.ExitOnError)
	prop := fs.String("prop", "", "")
	tier := fs.String("tier", "quick", "")
	seed := fs.Uint64("seed", 1, "")
	index := fs.Int("index", 0, "")
	budget := fs.Duration("budget", time.Minute, "")
	fs.Parse(args)
	spec := checks[*prop]
	if spec == nil {
		return 2
	}
	w := &WorkerCtx{Prop: *prop, Tier: *tier, Seed: *seed, Index: *index, Budget: *budget, Start: time.Now(), out: bufio.NewWriterSize(os.Stdout, 1<<16)}
	func() {
		defer func() {
			if r := recover(); r != nil {
				w.Emit(WorkResult{Kind: "harness-error", Msg: fmt.Sprintf("worker panic: %v", r)})
				panic(r)
			}
		}()
		spec.Worker(w)
	}()
	return 0
}

func cmdReplay(args []string) int {
	if len(args) < 1 {
		fmt.Fprintln(os.Stderr, "usage: sim replay <file>")
		return 2
	}
	b, err := os.ReadFile(args[0])
	if err != nil {
		fmt.Fprintln(os.Stderr, "harness:", err)
		return 2
	}
	var rf ReplayFile
	if err := json.Unmarshal(b, &rf); err != nil {
		fmt.Fprintln(os.Stderr, "harness: bad replay file:", err)
		return 2
	}
	var vs []Violation
	switch rf.Kind {
	case "plan":
		run := RunPlan(rf.Plan.Clone(), RunOpts{Health: true, Readback: true})
		vs = run.V
	default:
		if f := customReplays[rf.Kind]; f != nil {
			vs = f(&rf)
		} else {
			fmt.Fprintln(os.Stderr, "harness: unknown replay kind", rf.Kind)
			return 2
		}
	}
	for _, v := range vs {
		if v.Property == rf.Property && v.Oracle == rf.Oracle {
			fmt.Printf("VIOLATION property=%s replay=%s\n  %s\n", rf.Property, args[0], clip(v.String(), 3000))
			return 1
		}
	}
	fmt.Printf("not reproduced: property=%s oracle=%s (%d other violations)\n", rf.Property, rf.Oracle, len(vs))
	for _, v := range vs {
		fmt.Println("  other:", clip(v.String(), 400))
	}
	return 0
}

var customReplays = map[string]func(rf *ReplayFile) []Violation{}
