package main

import (
	"fmt"
	"os"
	"strings"
)

// devExec: sim exec <engine> <file.cdc>...  — runs World deploy + each file (split on lines "----") on a fresh node; prints outcomes.
func devExec(args []string) {
	engine := args[0]
	n := NewNode(NodeConfig{Name: "dev", Engine: engine, Cache: "warm", EnvReuse: true}, NewWorld())
	t := n.Exec(ExecReq{Kind: "tx", Source: DeployTx("World", WorldSrc), Signers: []uint64{1}}, true)
	if t.Err != nil {
		fmt.Println("deploy failed:", t.Err)
		os.Exit(2)
	}
	for _, f := range args[1:] {
		b, err := os.ReadFile(f)
		if err != nil {
			panic(err)
		}
		for k, src := range strings.Split(string(b), "\n----\n") {
			kind := "tx"
			if strings.Contains(src, "fun main(") {
				kind = "script"
			}
			t := n.Exec(ExecReq{Kind: kind, Source: src, Signers: []uint64{1, 2}, Salt: uint64(k)}, true)
			fmt.Printf("== %s #%d [%s] class=%s type=%s result=%s writes=%d calls=%d gauge=%d\n", f, k, engine, t.Class, t.ErrType, t.Result, len(t.Writes), len(t.Trace), t.GaugeN)
			for _, o := range t.Obs {
				fmt.Println("   obs", o)
			}
			for _, e := range canonEvents(t) {
				fmt.Println("   event", e)
			}
			for _, l := range t.Logs {
				fmt.Println("   log", l)
			}
			if t.Err != nil {
				fmt.Println("   err:", clip(t.Err.Error(), 3000))
			}
		}
	}
}
