package main

import (
	"fmt"
	"os"
	"strings"
)

// devExec: sim exec <engine> <file.cdc>...  — runs World deploy + each file (split on lines "----") on a fresh node; prints outcomes.
func devExec(args []string) {
	engine := args[0]
	n := NewNode(NodeConfig{Name: "dev", Engine: engine, Cache: "warm", EnvReuse: true}, NewWorld())
	t := n.Exec(ExecReq{Kind: "tx", Source: DeployTx("World", WorldSrc), Signers: []uint64{1}}, true)
	if t.Err != nil {
		fmt.Println("deploy failed:", t.Err)
		os.Exit(2)
	}
	for _, f := range args[1:] {
		b, err := os.ReadFile(f)
		if err != nil {
			panic(err)
		}
		for k, src := range strings.Split(string(b), "\n----\n") {
			kind := "tx"
			if strings.Contains(src, "fun main(") {
				kind = "script"
			}
			signers := []uint64{1, 2}
			if strings.HasPrefix(src, "//deploy ") {
				// "//deploy 0x2 Name" + contract source
				var a uint64
				var name string
				fmt.Sscanf(strings.SplitN(src, "\n", 2)[0], "//deploy 0x%x %s", &a, &name)
				src = DeployTx(name, strings.SplitN(src, "\n", 2)[1])
				signers = []uint64{a}
			} else if strings.HasPrefix(src, "//signers 1") {
				signers = []uint64{1}
			} else if strings.HasPrefix(src, "//restart") {
				n.Restart()
			}
			t := n.Exec(ExecReq{Kind: kind, Source: src, Signers: signers, Salt: uint64(k)}, true)
			fmt.Printf("== %s #%d [%s] class=%s type=%s result=%s writes=%d calls=%d gauge=%d\n", f, k, engine, t.Class, t.ErrType, t.Result, len(t.Writes), len(t.Trace), t.GaugeN)
			for _, o := range t.Obs {
				fmt.Println("   obs", o)
			}
			for _, e := range canonEvents(t) {
				fmt.Println("   event", e)
			}
			for _, l := range t.Logs {
				fmt.Println("   log", l)
			}
			if t.Err != nil {
				fmt.Println("   err:", clip(t.Err.Error(), 3000))
			}
		}
	}
}

// devCommitTrace: prints the callback kinds seen after the first SetValue of committed transactions (to study the commit phase).
func devCommitTrace(args []string) {
	seen := map[string]int{}
	for s := uint64(1); s <= 30; s++ {
		r := NewRng(s)
		g := &Gen{R: r, Cfg: cfgFor("C23", r)}
		p := g.Plan(s)
		p.Nodes = p.Nodes[:1]
		run := NewRunner(p, RunOpts{})
		for i := range p.Steps {
			run.step(i)
			t := run.Nodes[0].lastT
			if t == nil || len(t.Writes) == 0 {
				continue
			}
			first := t.Writes[0].Seq
			var ks []string
			for _, c := range t.Trace[first:] {
				k := c.Kind
				if k == "SetValue" {
					if len(c.Arg) > 17 && c.Arg[17:] == "73746f726564" {
						k = "SetValue(stored)"
					}
				}
				if len(ks) == 0 || ks[len(ks)-1] != k {
					ks = append(ks, k)
				}
			}
			seen[fmt.Sprint(ks)]++
		}
	}
	for k, v := range seen {
		fmt.Println(v, k)
	}
}

// devEnum: runs the C28 enumeration in-process and prints violations of all properties (development aid).
func devEnum() {
	seen := map[string]int{}
	for _, it := range corpus() {
		it := it
		base := it.baseWorld()
		for _, engine := range []string{"interp", "vm"} {
			if it.API == "readstored" && engine != "interp" {
				continue
			}
			_, clean := it.execItem(base, engine, nil)
			for k := range clean.Trace {
				for _, mode := range []string{"error", "panic"} {
					for _, v := range runFaulted(&it, base, engine, []FaultSpec{{Site: "*", Nth: k, Mode: mode}}, NewRunStats()) {
						key := v.Property + "/" + v.Oracle + "/" + v.Key + "/" + it.Name
						if seen[key] == 0 {
							fmt.Println(clip(v.String(), 700))
						}
						seen[key]++
					}
				}
			}
		}
	}
	for k, n := range seen {
		fmt.Println(n, k)
	}
}

// devC36Templates: runs one instance of every C36 script template alone on both engines and prints the outcome (development aid:
// all templates except the two deliberately failing ones must succeed).
func devC36Templates() {
	base := c36BaseWorld()
	for t := 0; t < c36Templates; t++ {
		src := c36ScriptT(NewRng(uint64(t)+1), 1, 0, t)
		for _, engine := range []string{"interp", "vm"} {
			n := NewNode(NodeConfig{Name: "solo", Engine: engine, Cache: "warm", EnvReuse: true}, base.Clone())
			tr := n.Exec(ExecReq{Kind: "script", Source: src, Salt: uint64(t)}, false)
			fmt.Printf("== template %d [%s]\n%s\n", t, engine, clip(summaryOf(tr), 900))
		}
	}
}

// devC44Zoo: sim c44zoo <seed> <engine> [-src]  — runs one zoo history and its oracles on the tree under test (development aid).
func devC44Zoo(args []string) {
	var seed uint64
	fmt.Sscanf(args[0], "%d", &seed)
	engine := "interp"
	if len(args) > 1 {
		engine = args[1]
	}
	zr := runZoo(seed, engine)
	if len(args) > 2 {
		fmt.Println(zooStoreTx(GenZoo(seed)))
		fmt.Println(zr.Verify)
	}
	for _, v := range zr.V {
		fmt.Println("VIOL", clip(v.String(), 3000))
	}
	if len(zr.V) > 0 {
		return
	}
	fmt.Printf("zoo %d on %s: %d entries kept, %d registers\n", seed, engine, len(zr.Entries), len(zr.W.Ledger))
	for _, v := range checkZooLedger(zr.W, zr.Verify, predictedOf(zr.Entries), []string{"interp", "vm"}) {
		fmt.Println("VIOL", clip(v.String(), 3000))
	}
	d, err := DumpDomains(zr.W)
	fmt.Println("domains:", len(d), err)
	if len(args) > 3 {
		for _, k := range sortedStringKeys(d) {
			fmt.Println("  ", k, "=", clip(d[k], 200))
		}
	}
}

// devScenarios: sim scn [name-substring]  — runs every scenario alone on interp / vm / vmpeep and prints outcomes vs expectations.
func devScenarios(args []string) {
	filter := ""
	if len(args) > 0 {
		filter = args[0]
	}
	bad := 0
	for _, sc := range scenarios {
		if !strings.Contains(sc.Name, filter) {
			continue
		}
		for _, engine := range []string{"interp", "vm", "vmpeep"} {
			n := NewNode(NodeConfig{Name: "solo", Engine: engine, Cache: "warm", EnvReuse: true}, NewWorld())
			if t := n.Exec(ExecReq{Kind: "tx", Source: DeployTx("World", WorldSrc), Signers: []uint64{1}}, true); t.Class != "ok" {
				panic(t.Err)
			}
			for _, st := range scnPrelude() {
				if t := n.Exec(ExecReq{Kind: "tx", Source: DeployTx(st.Name, st.Source), Signers: st.Signers}, true); t.Class != "ok" {
					fmt.Printf("DEPLOY %s FAILED on %s: %v\n", st.Name, engine, t.Err)
					bad++
				}
			}
			for k, st := range sc.Steps(NewRng(7)) {
				t := n.Exec(ExecReq{Kind: st.Kind, Source: st.Src, Signers: []uint64{ScnAcct}, Salt: uint64(k)}, true)
				status := "ok"
				switch {
				case st.Fails != "" && (t.Class != "user" || !strings.Contains(t.ErrType, st.Fails)):
					status = "BAD(expected failure " + st.Fails + ")"
				case st.SameEngineOnly:
				case st.Fails == "" && t.Class != "ok":
					status = "BAD(unexpected failure)"
				case st.Expect != nil && len(st.Expect) > 0 && fmt.Sprint(t.Logs) != fmt.Sprint(st.Expect):
					status = fmt.Sprintf("BAD(logs, expected %v)", st.Expect)
				}
				if status != "ok" {
					bad++
				}
				fmt.Printf("%-28s #%d %-7s %s class=%s type=%s result=%s logs=%v events=%d\n", sc.Name, k, engine, status, t.Class, t.ErrType, clip(t.Result, 300), t.Logs, len(t.Events))
				if status != "ok" && t.Err != nil {
					fmt.Println(clip(t.Err.Error(), 1800))
				}
			}
		}
	}
	fmt.Println("bad:", bad)
}
