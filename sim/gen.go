package main

// Seeded plan generation (swarm style, DESIGN.md §3.4). One integer decides everything.

import (
	"fmt"
	"strings"
)

// ---- PRNG: splitmix64 (own implementation so that plans do not depend on the Go version)

type Rng struct{ s uint64 }

func NewRng(seed uint64) *Rng { return &Rng{s: seed*0x9e3779b97f4a7c15 + 0x632be59bd9b4e019} }

func (r *Rng) U64() uint64 {
	r.s += 0x9e3779b97f4a7c15
	z := r.s
	z = (z ^ (z >> 30)) * 0xbf58476d1ce4e5b9
	z = (z ^ (z >> 27)) * 0x94d049bb133111eb
	return z ^ (z >> 31)
}
func (r *Rng) Intn(n int) int {
	if n <= 0 {
		return 0
	}
	return int(r.U64() % uint64(n))
}
func (r *Rng) Chance(p float64) bool { return float64(r.U64()>>11)/float64(1<<53) < p }
func (r *Rng) Float() float64        { return float64(r.U64()>>11) / float64(1<<53) }
func (r *Rng) Pick(xs []string) string { return xs[r.Intn(len(xs))] }
func (r *Rng) Fork() *Rng              { return NewRng(r.U64()) }

// ---- generator configuration (drawn per plan)

type GenCfg struct {
	Property  string
	Families  map[string]int // family -> weight
	Steps     int
	MaxOps    int
	NAccts    int
	NPaths    int
	FailRate  float64 // probability to keep an op the model predicts to fail
	ScriptRate float64
	FaultRate float64 // probability that a shadow node gets a faulted attempt before a step
	NoiseRate float64
	RestartRate float64
	EvictRate float64
	BigRate   float64 // probability of slab-sized values
	ScnRate   float64 // probability that a step is the next step of a scenario (scenarios.go)
	DeepCalls bool    // every node has a small call-depth limit: generate (aborting) recursions often
	FaultKinds []string
	Nodes     []NodeConfig
}

type Gen struct {
	R   *Rng
	Cfg GenCfg
	M   *Model
	nonce int
	queue []Op // ops that a family wants to follow the one it just returned (same transaction)
	scn   scnState
	lastCtA int    // contract most recently added / updated by a generated transaction: called soon afterwards
	lastCtS string
}

func (g *Gen) path() string { return fmt.Sprintf("p%d", g.R.Intn(g.Cfg.NPaths)) }
func (g *Gen) acct() int    { return 1 + g.R.Intn(g.Cfg.NAccts) }

// occupied picks an (account, path) holding a value satisfying pred, if any.
func (g *Gen) occupied(pred func(v *Val) bool) (int, string, bool) {
	type ap struct {
		a int
		p string
	}
	var cands []ap
	for a := 1; a <= g.Cfg.NAccts; a++ {
		for _, p := range sortedKeys(g.M.Accts[a].Storage) {
			if pred == nil || pred(g.M.Accts[a].Storage[p]) {
				cands = append(cands, ap{a, p})
			}
		}
	}
	if len(cands) == 0 {
		return 0, "", false
	}
	c := cands[g.R.Intn(len(cands))]
	return c.a, c.p, true
}

func (g *Gen) free() (int, string) {
	for k := 0; k < 8; k++ {
		a, p := g.acct(), g.path()
		if g.M.Accts[a].Storage[p] == nil {
			return a, p
		}
	}
	return g.acct(), g.path()
}

// target: usually an occupied path of the wanted kind, sometimes any path (to exercise nil / mismatch paths)
func (g *Gen) target(pred func(v *Val) bool) (int, string) {
	if g.R.Chance(0.85) {
		if a, p, ok := g.occupied(pred); ok {
			return a, p
		}
	}
	if g.R.Chance(0.5) {
		if a, p, ok := g.occupied(nil); ok {
			return a, p
		}
	}
	return g.acct(), g.path()
}

func isK(k string) func(*Val) bool { return func(v *Val) bool { return v.T.K == k } }

// ---- values

var words = []string{"a", "b", "cc", "key", "x1", "zed", "q", "w0"}

func (g *Gen) str() string {
	if g.R.Chance(g.Cfg.BigRate) {
		n := 40 + g.R.Intn(1300)
		var sb strings.Builder
		for sb.Len() < n {
			sb.WriteString(words[g.R.Intn(len(words))])
		}
		return sb.String()
	}
	return words[g.R.Intn(len(words))] + fmt.Sprint(g.R.Intn(10))
}

func (g *Gen) size() int {
	if g.R.Chance(g.Cfg.BigRate) {
		return 20 + g.R.Intn(120)
	}
	return g.R.Intn(5)
}

// sizeAt bounds container sizes by nesting depth and element kind, so that values stay in the kilobyte range
func (g *Gen) sizeAt(depth int, elem *Ty) int {
	n := g.size()
	switch {
	case depth >= 2 && n > 4:
		n = 4
	case depth == 1 && !isPrim(elem) && n > 6:
		n = 6
	case depth == 0 && !isPrim(elem) && n > 40:
		n = 40
	case depth == 1 && n > 40 && elem.K != "UInt64":
		n = 40
	}
	return n
}

func (g *Gen) valOf(t *Ty, depth int) *Val {
	switch t.K {
	case "Int":
		return VInt(int64(g.R.Intn(200)) - 50)
	case "UInt64":
		// mostly 9-byte encodings: a fixed-size primitive whose arrays cross the slab size with ~120 elements
		if g.R.Chance(0.15) {
			return &Val{T: TU64, I: int64(g.R.Intn(300))}
		}
		return &Val{T: TU64, I: int64(1)<<40 + int64(g.R.Intn(1<<20))}
	case "String":
		return VStr(g.str())
	case "Bool":
		return VBool(g.R.Chance(0.5))
	case "E":
		return VEnum(int64(g.R.Intn(3)))
	case "Arr":
		v := VArr(t)
		n := g.sizeAt(depth, t.Elem)
		for i := 0; i < n; i++ {
			v.Elems = append(v.Elems, g.valOf(t.Elem, depth+1))
		}
		return v
	case "CArr":
		v := VArr(t)
		for i := 0; i < t.N; i++ {
			v.Elems = append(v.Elems, g.valOf(t.Elem, depth+1))
		}
		return v
	case "Opt":
		if g.R.Chance(0.25) {
			return VNil(t)
		}
		return VSome(t, g.valOf(t.Elem, depth+1))
	case "Dict":
		v := VDict(t)
		n := g.sizeAt(depth, t.Elem)
		for i := 0; i < n; i++ {
			v.DictSet(g.valOf(t.Key, depth+1), g.valOf(t.Elem, depth+1))
		}
		return v
	case "S":
		var xs []int64
		for i, n := 0, g.sizeAt(depth+1, TInt); i < n; i++ {
			xs = append(xs, int64(g.R.Intn(100)))
		}
		m := map[string]int64{}
		for i, n := 0, g.R.Intn(3); i < n; i++ {
			m[words[g.R.Intn(len(words))]] = int64(g.R.Intn(100))
		}
		var kids []*Val
		if depth < 2 {
			for i, n := 0, g.R.Intn(3); i < n; i++ {
				kids = append(kids, g.valOf(TS, depth+1))
			}
		}
		s := VS(int64(g.R.Intn(100)), xs, m, kids...)
		if g.R.Chance(0.5) {
			s.F["o"] = VSome(TOpt(TString), VStr(g.str()))
		}
		if g.R.Chance(0.5) {
			s.F["oa"] = VSome(TOpt(TArr(TInt)), g.valOf(TArr(TInt), depth+1))
		}
		return s
	}
	panic("harness: valOf " + t.K)
}

var storableTypes = []*Ty{
	TInt, TString, TBool, TE, TS,
	TArr(TInt), TArr(TString), TArr(TS), TArr(TArr(TInt)), TArr(TAnyS),
	TDict(TString, TInt), TDict(TInt, TString), TDict(TString, TArr(TInt)), TDict(TString, TS),
	TCArr(TInt, 3), TArr(TOpt(TString)), TArr(TOpt(TArr(TInt))),
}

func (g *Gen) anyVal() *Val {
	t := storableTypes[g.R.Intn(len(storableTypes))]
	if t.K == "Arr" && t.Elem.K == "AnyStruct" {
		v := VArr(t)
		for i, n := 0, g.R.Intn(4); i < n; i++ {
			v.Elems = append(v.Elems, g.valOf([]*Ty{TInt, TString, TBool}[g.R.Intn(3)], 1))
		}
		return v
	}
	return g.valOf(t, 0)
}

// typeArg picks a type argument for load/copy/borrow/check relative to the stored value's type.
func (g *Gen) typeArg(v *Val, structOnly bool) *Ty {
	var st *Ty
	if v != nil {
		st = v.T
	}
	r := g.R.Float()
	switch {
	case st != nil && r < 0.5:
		if structOnly && st.IsResource() {
			return TAnyS
		}
		return st
	case st != nil && r < 0.75:
		// a supertype
		var sups []*Ty
		if st.IsResource() {
			sups = append(sups, TAnyR)
			if st.K == "R" {
				sups = append(sups, TRI)
			}
		} else {
			sups = append(sups, TAnyS)
			if st.K == "S" {
				sups = append(sups, TSI)
			}
			if st.K == "Arr" {
				sups = append(sups, TArr(TAnyS))
			}
			if st.K == "Dict" {
				sups = append(sups, TDict(st.Key, TAnyS))
			}
		}
		t := sups[g.R.Intn(len(sups))]
		if structOnly && t.IsResource() {
			return TAnyS
		}
		return t
	default:
		for {
			t := storableTypes[g.R.Intn(len(storableTypes))]
			if g.R.Chance(0.2) && !structOnly {
				t = []*Ty{TR, TV, TAnyR, TRI}[g.R.Intn(4)]
			}
			if structOnly && t.IsResource() {
				continue
			}
			return t
		}
	}
}

// ---- ops

func (g *Gen) storageOp() Op {
	switch g.R.Intn(12) {
	case 0, 1, 2:
		a, p := g.free()
		if g.R.Chance(0.1) {
			a, p = g.target(nil)
		}
		return Op{K: "st.save", A: a, P: p, V: g.anyVal()}
	case 3:
		a, p := g.target(nil)
		return Op{K: "st.load", A: a, P: p, T: g.typeArg(g.M.Accts[a].Storage[p], true)}
	case 4:
		a, p := g.target(nil)
		return Op{K: "st.copy", A: a, P: p, T: g.typeArg(g.M.Accts[a].Storage[p], true)}
	case 5:
		a, p := g.target(nil)
		return Op{K: "st.borrow", A: a, P: p, T: g.typeArg(g.M.Accts[a].Storage[p], false)}
	case 6:
		a, p := g.target(nil)
		return Op{K: "st.check", A: a, P: p, T: g.typeArg(g.M.Accts[a].Storage[p], false)}
	case 7:
		a, p := g.target(nil)
		return Op{K: "st.type", A: a, P: p}
	case 8:
		return Op{K: "st.paths", A: g.acct()}
	case 9:
		return Op{K: "st.foreach", A: g.acct()}
	case 10:
		a, p := g.target(func(v *Val) bool { return v.T.IsResource() })
		t := g.typeArg(g.M.Accts[a].Storage[p], false)
		if !t.IsResource() {
			t = TAnyR
		}
		o := Op{K: "st.loadR", A: a, P: p, T: t}
		if g.R.Chance(0.7) {
			o.B, o.Q = g.free()
		}
		return o
	default:
		a, p := g.free()
		return Op{K: "r.make", A: a, P: p, I: g.R.Intn(50)}
	}
}

func (g *Gen) kidIx(v *Val) []int {
	var ix []int
	for v != nil && g.R.Chance(0.4) {
		kids := v.F["kids"].Elems
		if len(kids) == 0 {
			break
		}
		i := g.R.Intn(len(kids))
		ix = append(ix, i)
		v = kids[i]
	}
	if g.R.Chance(0.03) {
		ix = append(ix, 7)
	}
	return ix
}

func (g *Gen) rAt(a int, p string) *Val {
	v := g.M.Accts[a].Storage[p]
	if v != nil && v.T.K == "R" {
		return v
	}
	return nil
}

func (g *Gen) resourceOp() Op {
	isR := isK("R")
	nR := 0
	for a := 1; a <= g.Cfg.NAccts; a++ {
		for _, v := range g.M.Accts[a].Storage {
			if v.T.K == "R" {
				nR++
			}
		}
	}
	c := g.R.Intn(22)
	if nR < 2 && g.R.Chance(0.7) {
		c = 0
	}
	if g.R.Chance(0.04) {
		// a program violating resource linearity: must be rejected as a whole
		return Op{K: "r.lin", I: g.R.Intn(linVariants), Edge: true}
	}
	switch c {
	case 0, 1, 2:
		a, p := g.free()
		return Op{K: "r.make", A: a, P: p, I: g.R.Intn(50)}
	case 3:
		a, p := g.target(isR)
		b, q := g.free()
		return Op{K: "r.move", A: a, P: p, B: b, Q: q}
	case 4, 5:
		a, p := g.target(isR)
		b, q := g.target(isR)
		return Op{K: "r.nest", A: a, P: p, B: b, Q: q, Ix: g.kidIx(g.rAt(b, q))}
	case 6, 7:
		a, p := g.target(isR)
		b, q := g.target(isR)
		return Op{K: "r.put", A: a, P: p, B: b, Q: q, S: words[g.R.Intn(4)], Ix: g.kidIx(g.rAt(b, q))}
	case 8, 9:
		a, p := g.target(func(v *Val) bool { return v.T.K == "R" && len(v.F["kids"].Elems) > 0 })
		b, q := g.free()
		i := g.R.Intn(3)
		if r := g.rAt(a, p); r != nil && len(r.F["kids"].Elems) > 0 && g.R.Chance(0.9) {
			i = g.R.Intn(len(r.F["kids"].Elems))
			return Op{K: "r.take", A: a, P: p, I: i, B: b, Q: q}
		}
		return Op{K: "r.take", A: a, P: p, I: i, B: b, Q: q, Ix: g.kidIx(g.rAt(a, p))}
	case 10:
		a, p := g.target(func(v *Val) bool { return v.T.K == "R" && len(v.F["named"].Keys) > 0 })
		b, q := g.free()
		return Op{K: "r.takeNamed", A: a, P: p, S: words[g.R.Intn(4)], B: b, Q: q, Ix: g.kidIx(g.rAt(a, p))}
	case 11:
		a, p := g.target(isR)
		b, q := g.target(isR)
		if g.R.Chance(0.2) {
			b, q = g.free()
		}
		return Op{K: "r.setOpt", A: a, P: p, B: b, Q: q, Ix: g.kidIx(g.rAt(a, p))}
	case 12:
		a, p := g.target(isR)
		return Op{K: "r.destroy", A: a, P: p}
	case 13:
		a, p := g.target(func(v *Val) bool { return v.T.K == "R" && len(v.F["kids"].Elems) > 0 })
		return Op{K: "r.destroyKid", A: a, P: p, I: g.R.Intn(2), Ix: g.kidIx(g.rAt(a, p))}
	case 14:
		a, p := g.target(isR)
		return Op{K: "r.touch", A: a, P: p, I: g.R.Intn(100), J: g.R.Intn(100), Ix: g.kidIx(g.rAt(a, p))}
	case 15, 16:
		a, p := g.target(isR)
		return Op{K: "r.snap", A: a, P: p}
	case 17:
		a, p := g.target(isR)
		b, q := g.target(isR)
		return Op{K: "r.swap", A: a, P: p, B: b, Q: q}
	case 18:
		isArr := func(v *Val) bool { return v.T.K == "Arr" && v.T.Elem.K == "R" }
		if _, _, ok := g.occupied(isArr); !ok || g.R.Chance(0.1) {
			a, p := g.free()
			return Op{K: "r.arrNew", A: a, P: p}
		}
		a, p := g.target(isR)
		b, q := g.target(isArr)
		return Op{K: "r.arrPush", A: a, P: p, B: b, Q: q}
	case 19:
		isArr := func(v *Val) bool { return v.T.K == "Arr" && v.T.Elem.K == "R" }
		a, p := g.target(isArr)
		if g.R.Chance(0.2) {
			return Op{K: "r.arrDestroy", A: a, P: p}
		}
		b, q := g.free()
		i := 0
		if v := g.M.Accts[a].Storage[p]; v != nil && len(v.Elems) > 0 {
			i = g.R.Intn(len(v.Elems))
		}
		return Op{K: "r.arrPop", A: a, P: p, I: i, B: b, Q: q}
	case 20:
		isD := func(v *Val) bool { return v.T.K == "Dict" && v.T.Elem.K == "R" }
		if _, _, ok := g.occupied(isD); !ok || g.R.Chance(0.1) {
			a, p := g.free()
			return Op{K: "r.dictNew", A: a, P: p}
		}
		a, p := g.target(isR)
		b, q := g.target(isD)
		return Op{K: "r.dictPut", A: a, P: p, B: b, Q: q, S: words[g.R.Intn(4)]}
	default:
		isD := func(v *Val) bool { return v.T.K == "Dict" && v.T.Elem.K == "R" }
		a, p := g.target(isD)
		b, q := g.free()
		return Op{K: "r.dictTake", A: a, P: p, S: words[g.R.Intn(4)], B: b, Q: q}
	}
}

var containerTypes = []*Ty{
	TArr(TInt), TArr(TInt), TArr(TString), TArr(TS), TArr(TArr(TInt)),
	TDict(TString, TInt), TDict(TInt, TString), TDict(TString, TArr(TInt)), TDict(TString, TS),
	TCArr(TInt, 3),
	TArr(TU64), TArr(TArr(TU64)), TDict(TString, TArr(TU64)),
	TDict(TU64, TString), // fixed-size keys, variable-size values: a small dictionary whose (long) string values live in slabs of their own
}

func isContainer(v *Val) bool {
	if v.T.IsResource() {
		return false
	}
	for _, t := range containerTypes {
		if t.Equal(v.T) {
			return true
		}
	}
	return false
}

func (g *Gen) idx(n int) int {
	switch {
	case g.R.Chance(0.06):
		return n + g.R.Intn(3)
	case g.R.Chance(0.02):
		return -1 - g.R.Intn(2)
	case g.R.Chance(0.04):
		// an Int that does not fit in 64 bits
		if g.R.Chance(0.3) {
			return -hugeIdx - g.R.Intn(3)
		}
		return hugeIdx + g.R.Intn(4)
	case n == 0:
		return 0
	}
	return g.R.Intn(n)
}

func (g *Gen) containerOp() Op {
	if _, _, ok := g.occupied(isContainer); !ok || g.R.Chance(0.12) {
		a, p := g.free()
		t := containerTypes[g.R.Intn(len(containerTypes))]
		return Op{K: "c.new", A: a, P: p, V: g.valOf(t, 0)}
	}
	a, p := g.target(isContainer)
	v := g.M.Accts[a].Storage[p]
	var t *Ty
	if v != nil && isContainer(v) {
		t = v.T
	} else {
		t = containerTypes[g.R.Intn(len(containerTypes))]
	}
	o := Op{K: "c.ops", A: a, P: p, T: t, M: "ref"}
	if g.R.Chance(0.35) {
		o.M = "mem"
	}
	// simulate on a scratch copy to choose sensible indices
	var cur *Val
	if v != nil && isContainer(v) {
		cur = v.Clone()
	} else {
		cur = g.valOf(t, 0)
	}
	nsub := 1 + g.R.Intn(10)
	if g.R.Chance(g.Cfg.BigRate) {
		nsub = 20 + g.R.Intn(40)
	}
	et := t.Elem
	for j := 0; j < nsub; j++ {
		var s SubOp
		edge := false
		n := len(cur.Elems)
		switch t.K {
		case "Arr":
			kinds := []string{"append", "append", "append", "appendAll", "insert", "remove", "removeFirst", "removeLast", "get", "set", "slice", "reverse", "concat", "length", "toConst", "iter"}
			if et.K == "Int" {
				kinds = append(kinds, "filter", "map", "contains", "firstIndex")
			}
			if et.K == "String" {
				kinds = append(kinds, "contains", "firstIndex")
			}
			if o.M == "ref" && !isPrim(et) {
				// through a reference, functions returning arrays yield arrays of references: not observable as values
				kinds = []string{"append", "append", "appendAll", "insert", "remove", "removeFirst", "removeLast", "get", "set", "length", "iter"}
			}
			s.S = kinds[g.R.Intn(len(kinds))]
			switch s.S {
			case "append":
				s.V = g.valOf(et, 1)
			case "appendAll", "concat":
				s.V = g.valOf(t, 1)
			case "insert":
				s.I, s.V = g.idx(n+1), g.valOf(et, 1)
			case "remove", "get":
				s.I = g.idx(n)
			case "set":
				s.I, s.V = g.idx(n), g.valOf(et, 1)
			case "slice":
				s.I = g.idx(n + 1)
				s.J = s.I + g.R.Intn(n+1-min(s.I, n)+1)
				if g.R.Chance(0.05) {
					s.I, s.J = s.J+1, s.I
				}
				if g.R.Chance(0.25) {
					// boundary cases
					edges := [][2]int{{n, n}, {n + 1, n + 1}, {0, 0}, {n, n + 1}, {-1, 0}, {0, n}, {n + 2, n + 2}, {1, 0}, {0, n + 1}, {-1, -1}}
					e := edges[g.R.Intn(len(edges))]
					s.I, s.J = e[0], e[1]
					edge = true
				}
			case "contains", "firstIndex":
				if n > 0 && g.R.Chance(0.6) {
					s.V = cur.Elems[g.R.Intn(n)].Clone()
				} else {
					s.V = g.valOf(et, 1)
				}
			case "toConst":
				s.I = n
				if g.R.Chance(0.3) {
					s.I = n + 1
				}
			case "removeFirst", "removeLast":
				if n == 0 && g.R.Chance(0.9) {
					s.S, s.V = "append", g.valOf(et, 1)
				}
			}
		case "CArr":
			kinds := []string{"get", "set", "reverse", "length", "toVar", "iter", "contains", "firstIndex"}
			s.S = kinds[g.R.Intn(len(kinds))]
			switch s.S {
			case "get":
				s.I = g.idx(n)
			case "set":
				s.I, s.V = g.idx(n), g.valOf(et, 1)
			case "contains", "firstIndex":
				s.V = g.valOf(et, 1)
			}
		case "Dict":
			kinds := []string{"dinsert", "dinsert", "dset", "dremove", "dget", "dsetnil", "keys", "values", "containsKey", "forEachKey", "diter", "dlength"}
			if !isPrim(et) {
				// values of non-primitive type through a reference would need dereferencing each element
				kinds = []string{"dinsert", "dinsert", "dset", "dremove", "dget", "dsetnil", "keys", "containsKey", "forEachKey", "diter", "dlength"}
			}
			s.S = kinds[g.R.Intn(len(kinds))]
			if len(cur.Keys) > 0 && g.R.Chance(0.6) {
				s.K = cur.Keys[g.R.Intn(len(cur.Keys))].Clone()
			} else {
				s.K = g.valOf(t.Key, 1)
			}
			switch s.S {
			case "dinsert", "dset":
				s.V = g.valOf(et, 1)
			}
		}
		if s.I >= hugeIdx || s.I <= -hugeIdx || s.J >= hugeIdx || s.J <= -hugeIdx {
			edge = true
		}
		o.Sub = append(o.Sub, s)
		// advance the scratch copy (ignore failures: the real model decides)
		sc := NewModel(1)
		sc.Accts[1].Storage["x"] = cur
		pr := &Pred{}
		if f, _ := sc.applyContainers(Op{K: "c.ops", A: 1, P: "x", T: t, M: "ref", Sub: []SubOp{s}}, pr); f != "" {
			keep := g.Cfg.FailRate
			if edge {
				keep = 0.7
			}
			if !g.R.Chance(keep) {
				o.Sub = o.Sub[:len(o.Sub)-1]
				continue
			}
			o.Edge = edge
			break
		}
	}
	if len(o.Sub) == 0 {
		o.Sub = []SubOp{{S: map[string]string{"Arr": "length", "CArr": "length", "Dict": "dlength"}[t.K]}}
	}
	return o
}

func min(a, b int) int {
	if a < b {
		return a
	}
	return b
}

func (g *Gen) copyOp() Op {
	types := []*Ty{TS, TS, TArr(TS), TDict(TString, TArr(TInt)), TArr(TOpt(TArr(TInt)))}
	t := types[g.R.Intn(len(types))]
	pred := func(v *Val) bool { return v.T.Equal(t) }
	if _, _, ok := g.occupied(pred); !ok || g.R.Chance(0.1) {
		a, p := g.free()
		v := g.valOf(t, 0)
		switch t.K {
		case "S":
			if len(v.F["kids"].Elems) == 0 {
				v.F["kids"].Elems = append(v.F["kids"].Elems, g.valOf(TS, 2))
			}
		case "Arr":
			if len(v.Elems) == 0 {
				v.Elems = append(v.Elems, g.valOf(t.Elem, 1))
			}
			if t.Elem.K == "Opt" && v.Elems[0].Opt == nil && g.R.Chance(0.8) {
				v.Elems[0] = VSome(t.Elem, g.valOf(t.Elem.Elem, 2))
			}
		case "Dict":
			v.DictSet(VStr("a"), g.valOf(TArr(TInt), 1))
		}
		return Op{K: "st.save", A: a, P: p, V: v}
	}
	a, p := g.target(pred)
	g.nonce++
	o := Op{K: "cp.probe", A: a, P: p, T: t, S: CopyForms[g.R.Intn(len(CopyForms))], I: g.R.Intn(7), J: g.R.Intn(2), N: g.nonce}
	if t.K == "S" {
		o.I = g.R.Intn(10)
	}
	if g.R.Chance(0.3) {
		_, o.Q = g.free()
		if g.M.Accts[a].Storage[o.Q] != nil {
			o.Q = ""
		}
	}
	return o
}

func (g *Gen) attachOp() Op {
	isR := isK("R")
	if _, _, ok := g.occupied(isR); !ok || g.R.Chance(0.1) {
		a, p := g.free()
		return Op{K: "r.make", A: a, P: p, I: g.R.Intn(50)}
	}
	a, p := g.target(isR)
	switch g.R.Intn(15) {
	case 0, 1, 2:
		return Op{K: "at.attach", A: a, P: p, S: []string{"A", "B"}[g.R.Intn(2)], I: g.R.Intn(100)}
	case 3:
		return Op{K: "at.remove", A: a, P: p, S: []string{"A", "B"}[g.R.Intn(2)]}
	case 4, 5:
		return Op{K: "at.read", A: a, P: p, Ix: g.kidIx(g.rAt(a, p))}
	case 6:
		return Op{K: "at.set", A: a, P: p, I: g.R.Intn(100), Ix: g.kidIx(g.rAt(a, p))}
	case 7:
		return Op{K: "at.forEach", A: a, P: p, Ix: g.kidIx(g.rAt(a, p))}
	case 8:
		b, q := g.target(isR)
		return Op{K: "r.nest", A: a, P: p, B: b, Q: q}
	case 9:
		b, q := g.free()
		return Op{K: "r.move", A: a, P: p, B: b, Q: q}
	case 10:
		return Op{K: "r.destroy", A: a, P: p}
	case 11:
		return Op{K: "r.snap", A: a, P: p}
	case 13:
		return Op{K: "at.stackMove", A: a, P: p, I: g.R.Intn(2)}
	case 12:
		isS := isK("S")
		if _, _, ok := g.occupied(isS); !ok {
			a, p := g.free()
			return Op{K: "st.save", A: a, P: p, V: g.valOf(TS, 1)}
		}
		a, p := g.target(isS)
		if g.R.Chance(0.3) {
			return Op{K: "at.sremove", A: a, P: p}
		}
		return Op{K: "at.sattach", A: a, P: p, I: g.R.Intn(100)}
	default:
		a, p := g.target(isK("S"))
		return Op{K: "st.copy", A: a, P: p, T: TS}
	}
}

func (g *Gen) controlOp() Op {
	c := g.R.Intn(4)
	if g.Cfg.DeepCalls && g.R.Chance(0.6) {
		c = 3
	}
	switch c {
	case 3:
		// recursion well below the smallest configured call-depth limit (256); with J == 1 the execution aborts at the bottom,
		// with I frames on the stack
		o := Op{K: "x.recurse", I: 1 + g.R.Intn(150)}
		if g.R.Chance(0.4) {
			o.J, o.Edge = 1, true
		}
		return o
	case 0:
		return Op{K: "x.panic", S: "boom"}
	case 1:
		return Op{K: "x.assert", I: g.R.Intn(3) - 1, S: "nope"}
	default:
		return Op{K: "x.loop", I: g.R.Intn(200)}
	}
}

func (g *Gen) op() Op {
	if len(g.queue) > 0 {
		o := g.queue[0]
		g.queue = g.queue[1:]
		return o
	}
	total := 0
	var fams []string
	for _, f := range []string{"storage", "resource", "container", "copy", "attachment", "event", "control", "capability", "contract", "hostsvc"} {
		if w := g.Cfg.Families[f]; w > 0 {
			total += w
			fams = append(fams, f)
		}
	}
	x := g.R.Intn(total)
	for _, f := range fams {
		x -= g.Cfg.Families[f]
		if x < 0 {
			switch f {
			case "storage":
				return g.storageOp()
			case "resource":
				return g.resourceOp()
			case "container":
				return g.containerOp()
			case "copy":
				return g.copyOp()
			case "attachment":
				return g.attachOp()
			case "event":
				return Op{K: "ev.rich", I: g.R.Intn(500)}
			case "control":
				return g.controlOp()
			case "capability":
				return g.capOp()
			case "contract":
				return g.contractOp()
			case "hostsvc":
				return g.hostSvcOp()
			}
		}
	}
	panic("harness: no family")
}

// ops draws the operation list of one transaction, advancing the generator's model when it is predicted to succeed.
func (g *Gen) ops(isScript bool) []Op {
	n := 1 + g.R.Intn(g.Cfg.MaxOps)
	var ops []Op
	scratch := g.M.Clone()
	scratch.Ctr.BeginTx()
	g.M = scratch
	// a call into a deployed contract needs an import, i.e. a transaction of its own
	if g.Cfg.Families["contract"] > 0 && !isScript && g.lastCtS != "" && g.R.Chance(0.5) {
		// call into the version that was just deployed (emits the event declared by that version)
		a, name := g.lastCtA, g.lastCtS
		g.lastCtS = ""
		if g.M.Ctr.get(a, name) != nil {
			return []Op{{K: "ct.call", A: a, S: name}}
		}
	}
	if g.Cfg.Families["contract"] > 0 && !isScript && g.R.Chance(0.2) {
		a := g.acct()
		name := ctNames[g.R.Intn(len(ctNames))]
		if g.M.Ctr.get(a, name) != nil || g.R.Chance(0.1) {
			return []Op{{K: "ct.call", A: a, S: name}}
		}
	}
	for len(ops) < n {
		o := g.op()
		pr := &Pred{}
		try := scratch.Clone()
		if f := try.Apply(o, pr); f != "" {
			if g.R.Chance(g.Cfg.FailRate) || (o.Edge && g.R.Chance(0.8)) {
				ops = append(ops, o)
				break
			}
			if g.R.Chance(0.3) { // avoid spinning when nothing can succeed
				n--
			}
			continue
		}
		scratch = try
		g.M = mergeForGen(g.M, scratch)
		ops = append(ops, o)
		if !isScript && (o.K == "ct.add" || o.K == "ct.update" || o.K == "ct.tryUpdate") {
			g.lastCtA, g.lastCtS = o.A, o.S
		}
	}
	return ops
}

// mergeForGen lets later ops of the same transaction see earlier ones while choosing targets.
func mergeForGen(_ *Model, scratch *Model) *Model { return scratch }

func defaultNodes() []NodeConfig {
	return []NodeConfig{
		{Name: "primary", Engine: "interp", Cache: "cold", EnvReuse: true},
		{Name: "i2", Engine: "interp", Cache: "cold", EnvReuse: false},
		{Name: "i3", Engine: "interp", Cache: "warm", EnvReuse: true, AtreeValidation: true, KeepLoaded: true},
		{Name: "v1", Engine: "vm", Cache: "cold", EnvReuse: true},
		{Name: "v2", Engine: "vm", Cache: "cold", EnvReuse: false},
		{Name: "p1", Engine: "vmpeep", Cache: "warm", EnvReuse: true, AtreeValidation: true, KeepLoaded: true},
	}
}

var hostSites = []string{"*", "*", "*", "GetValue", "SetValue", "AllocateSlabIndex", "GetOrLoadProgram", "EmitEvent", "GenerateUUID", "ValueExists", "ResolveLocation", "GetAccountContractCode"}

func (g *Gen) fault() FaultSpec {
	kinds := g.Cfg.FaultKinds
	switch kinds[g.R.Intn(len(kinds))] {
	case "F1":
		mode := "error"
		if g.R.Chance(0.2) {
			mode = "sticky"
		}
		return FaultSpec{Site: hostSites[g.R.Intn(len(hostSites))], Nth: -1, Frac: g.fracBiased(), Mode: mode}
	case "F2":
		mode := "panic"
		if g.R.Chance(0.3) {
			mode = "panicstr"
		}
		return FaultSpec{Site: hostSites[g.R.Intn(len(hostSites))], Nth: -1, Frac: g.fracBiased(), Mode: mode}
	case "F3":
		return FaultSpec{Site: "mem", Nth: -1, Frac: g.fracBiased(), Mode: "sticky"}
	default:
		return FaultSpec{Site: "comp", Nth: -1, Frac: g.fracBiased(), Mode: "sticky"}
	}
}

// fracBiased: uniform, but 30 % in the last tenth (commit phase) and 10 % at the very first / very last call
func (g *Gen) fracBiased() float64 {
	switch {
	case g.R.Chance(0.05):
		return 0.000001
	case g.R.Chance(0.05):
		return 0.999999
	case g.R.Chance(0.3):
		return 0.9 + g.R.Float()*0.0999
	}
	f := g.R.Float()
	if f == 0 {
		f = 0.000001
	}
	return f
}

// Plan draws a whole plan.
func (g *Gen) Plan(seed uint64) *Plan {
	p := &Plan{Property: g.Cfg.Property, Seed: seed, NAccts: g.Cfg.NAccts, Nodes: g.Cfg.Nodes}
	p.Steps = append(p.Steps, Step{Kind: "deploy", Name: "World", Source: WorldSrc, Signers: []uint64{1}})
	if g.Cfg.Families["contract"] > 0 {
		p.Steps = append(p.Steps, Step{Kind: "deploy", Name: "VI", Source: viSrc, Signers: []uint64{1}})
	}
	p.Steps = append(p.Steps, g.prelude()...)
	g.M = NewModel(g.Cfg.NAccts)
	g.M.Ctr.VI = g.Cfg.Families["contract"] > 0
	nPre := len(p.Steps)
	for len(p.Steps) < g.Cfg.Steps+nPre {
		switch {
		case g.R.Chance(g.Cfg.RestartRate):
			p.Steps = append(p.Steps, Step{Kind: "restart", Node: g.shadow()})
			continue
		case g.R.Chance(g.Cfg.EvictRate):
			st := Step{Kind: "evict", Node: g.shadow()}
			if g.R.Chance(0.5) {
				st.Loc = "0x1.World"
			}
			p.Steps = append(p.Steps, st)
			continue
		case g.R.Chance(0.05):
			p.Steps = append(p.Steps, Step{Kind: "block"})
			continue
		}
		isScript := g.R.Chance(g.Cfg.ScriptRate)
		st := Step{Kind: "tx"}
		if g.Cfg.ScnRate > 0 && g.R.Chance(g.Cfg.ScnRate) {
			scnDepthLimit = 2000
			if g.Cfg.DeepCalls {
				scnDepthLimit = 256
			}
			st = g.scn.next(g.R)
		} else if isScript {
			st.Kind = "script"
			save := g.M
			st.Ops = g.ops(true)
			g.M = save
		} else {
			save := g.M
			st.Ops = g.ops(false)
			// the generator's model advances only if the transaction as a whole is predicted to succeed
			pr, next := save.Predict(st.Ops, false)
			if pr.Fail == "" {
				g.M = next
			} else {
				g.M = save
			}
		}
		for _, n := range g.Cfg.Nodes[1:] {
			if g.isReference(n) {
				continue
			}
			if g.R.Chance(g.Cfg.NoiseRate) {
				if st.Noise == nil {
					st.Noise = map[string][]NoiseStep{}
				}
				save := g.M
				kind := "script"
				if g.R.Chance(0.5) {
					kind = "abortedtx"
				}
				st.Noise[n.Name] = append(st.Noise[n.Name], NoiseStep{Kind: kind, Ops: g.ops(true)})
				g.M = save
			}
			if len(g.Cfg.FaultKinds) > 0 && g.R.Chance(g.Cfg.FaultRate) {
				if st.Attempts == nil {
					st.Attempts = map[string][]Attempt{}
				}
				k := 1
				if g.R.Chance(0.2) {
					k = 2
				}
				for ; k > 0; k-- {
					at := Attempt{Faults: []FaultSpec{g.fault()}}
					if g.R.Chance(0.1) {
						at.Faults = append(at.Faults, g.fault())
					}
					st.Attempts[n.Name] = append(st.Attempts[n.Name], at)
				}
			}
		}
		p.Steps = append(p.Steps, st)
	}
	return p
}

// isReference: the first node of each engine stays clean; its transcript resolves fault positions for the others.
func (g *Gen) isReference(n NodeConfig) bool {
	for _, m := range g.Cfg.Nodes {
		if m.Engine == n.Engine {
			return m.Name == n.Name
		}
	}
	return false
}

func (g *Gen) shadow() string {
	if len(g.Cfg.Nodes) < 2 || g.R.Chance(0.2) {
		return ""
	}
	return g.Cfg.Nodes[1+g.R.Intn(len(g.Cfg.Nodes)-1)].Name
}

func (g *Gen) prelude() []Step {
	if g.Cfg.ScnRate > 0 {
		return scnPrelude()
	}
	return nil
}
