module verif/sim

go 1.25

require (
	github.com/onflow/atree v0.16.1
	github.com/onflow/cadence v0.0.0
	go.opentelemetry.io/otel v1.38.0
	golang.org/x/text v0.31.0
)

require (
	github.com/SaveTheRbtz/mph v0.1.1-0.20240117162131-4166ec7869bc // indirect
	github.com/bits-and-blooms/bitset v1.24.4 // indirect
	github.com/davecgh/go-spew v1.1.1 // indirect
	github.com/fxamacker/cbor/v2 v2.9.2-0.20260331174317-a78e92ec038e // indirect
	github.com/fxamacker/circlehash v0.3.0 // indirect
	github.com/google/pprof v0.0.0-20250630185457-6e76a2b096b5 // indirect
	github.com/k0kubun/pp/v3 v3.5.0 // indirect
	github.com/klauspost/cpuid/v2 v2.2.0 // indirect
	github.com/kr/pretty v0.3.1 // indirect
	github.com/kr/text v0.2.0 // indirect
	github.com/logrusorgru/aurora/v4 v4.0.0 // indirect
	github.com/mattn/go-colorable v0.1.14 // indirect
	github.com/mattn/go-isatty v0.0.20 // indirect
	github.com/onflow/fixed-point v0.1.1 // indirect
	github.com/pmezard/go-difflib v1.0.0 // indirect
	github.com/rivo/uniseg v0.4.7 // indirect
	github.com/rogpeppe/go-internal v1.9.0 // indirect
	github.com/stretchr/testify v1.11.1 // indirect
	github.com/texttheater/golang-levenshtein/levenshtein v0.0.0-20200805054039-cae8b0eaed6c // indirect
	github.com/turbolent/prettier v0.0.0-20220320183459-661cc755135d // indirect
	github.com/x448/float16 v0.8.4 // indirect
	github.com/zeebo/blake3 v0.2.4 // indirect
	golang.org/x/exp v0.0.0-20240103183307-be819d1f06fc // indirect
	golang.org/x/sys v0.38.0 // indirect
	golang.org/x/xerrors v0.0.0-20240903120638-7835f813f4da // indirect
	gopkg.in/yaml.v3 v3.0.1 // indirect
)

replace github.com/onflow/cadence => /repo
