package main

// Oracle 6.4: ledger health, decodability, re-encoding identity and resource population,
// evaluated on a fresh runtime.Storage over the committed ledger only.

import (
	"fmt"
	"sort"
	"strings"

	"github.com/onflow/atree"

	"github.com/onflow/cadence"
	"github.com/onflow/cadence/common"
	"github.com/onflow/cadence/interpreter"
	"github.com/onflow/cadence/runtime"
)

type HealthReport struct {
	Err         string   // C23: structural problem
	ReencodeErr string   // C44: a slab does not re-encode to its stored bytes
	UUIDs       []uint64 // all resource uuids found in storage (with duplicates)
	UUIDOwner   map[uint64]uint64 // uuid -> number of the account whose storage holds it
	Paths       map[string][]string // "addr/domain" -> sorted keys
	Slabs       int
	Values      int
}

// readOnlyHost serves a World read-only without tracing (used by oracles; never part of a transcript).
func oracleHost(w *World) *Host {
	h := NewHost(w.Clone())
	h.Begin(nil, nil)
	return h
}

func CheckHealth(w *World) (rep HealthReport) {
	rep.Paths = map[string][]string{}
	rep.UUIDOwner = map[uint64]uint64{}
	var curOwner uint64
	defer func() {
		if r := recover(); r != nil {
			rep.Err = fmt.Sprintf("panic while walking storage: %v", r)
		}
	}()
	h := oracleHost(w)
	rt := runtime.NewRuntime(runtime.Config{AtreeValidationEnabled: true})
	var loc common.ScriptLocation
	storage, inter, err := rt.Storage(runtime.Context{Interface: h, Location: loc, Environment: runtime.NewScriptInterpreterEnvironment(runtime.Config{})})
	if err != nil {
		rep.Err = "cannot open storage: " + err.Error()
		return
	}
	owners := map[string]bool{}
	for _, k := range w.LedgerKeys() {
		parts := strings.SplitN(k, "|", 2)
		owner, key := parts[0], parts[1]
		owners[owner] = true
		val := w.Ledger[k]
		if key == "stored" {
			if len(val) != 8 {
				rep.Err = fmt.Sprintf("account storage register of %x has length %d", owner, len(val))
				return
			}
			continue
		}
		if len(key) == 9 && key[0] == '$' {
			var a atree.Address
			copy(a[:], owner)
			var idx atree.SlabIndex
			copy(idx[:], key[1:])
			slab, ok, err := storage.Retrieve(atree.NewSlabID(a, idx))
			if err != nil || !ok {
				rep.Err = fmt.Sprintf("slab %x|%x does not load: found=%v err=%v", owner, key, ok, err)
				return
			}
			rep.Slabs++
			enc, err := atree.EncodeSlab(slab, interpreter.CBOREncMode)
			if err != nil {
				rep.ReencodeErr = fmt.Sprintf("slab %x|%x does not re-encode: %v", owner, key, err)
			} else if string(enc) != string(val) {
				rep.ReencodeErr = fmt.Sprintf("slab %x|%x re-encodes to different bytes", owner, key)
			}
			continue
		}
		rep.Err = fmt.Sprintf("unexpected register %x|%x", owner, key)
		return
	}
	var os []string
	for o := range owners {
		os = append(os, o)
	}
	sort.Strings(os)
	var walk func(v interpreter.Value)
	walk = func(v interpreter.Value) {
		rep.Values++
		if c, ok := v.(*interpreter.CompositeValue); ok && c.Kind == common.CompositeKindResource {
			if u := c.ResourceUUID(inter); u != nil {
				rep.UUIDs = append(rep.UUIDs, uint64(*u))
				rep.UUIDOwner[uint64(*u)] = curOwner
			} else {
				rep.Err = "resource without uuid: " + string(c.TypeID())
			}
		}
		v.Walk(inter, walk)
	}
	for _, o := range os {
		var a common.Address
		copy(a[:], o)
		curOwner = 0
		for _, b := range a {
			curOwner = curOwner<<8 | uint64(b)
		}
		for _, d := range common.AllStorageDomains {
			m := storage.GetDomainStorageMap(inter, a, d, false)
			if m == nil {
				continue
			}
			it := m.Iterator()
			var keys []string
			for {
				k, v := it.Next(inter)
				if k == nil {
					break
				}
				keys = append(keys, fmt.Sprint(k))
				walk(v)
			}
			sort.Strings(keys)
			rep.Paths[fmt.Sprintf("%d/%s", a[7], d.Identifier())] = keys
		}
	}
	if err := storage.CheckHealth(); err != nil {
		rep.Err = "CheckHealth: " + err.Error()
	}
	return
}

// ReadStored reads one stored value through the runtime's host-facing API (independent of in-language operations).
func ReadStored(w *World, a int, path string) (s string, err error) {
	defer func() {
		if r := recover(); r != nil {
			err = fmt.Errorf("panic: %v", r)
		}
	}()
	h := oracleHost(w)
	rt := runtime.NewRuntime(runtime.Config{})
	var loc common.ScriptLocation
	v, err := rt.ReadStored(addr(uint64(a)), cadence.Path{Domain: common.PathDomainStorage, Identifier: path}, runtime.Context{Interface: h, Location: loc, Environment: runtime.NewScriptInterpreterEnvironment(runtime.Config{})})
	if err != nil {
		return "", err
	}
	return Canon(v), nil
}
