package main

// SimHost: the simulated host ("Flow node") that Cadence runs against.
// It implements runtime.Interface, common.MemoryGauge and common.ComputationGauge and owns every
// source of nondeterminism and every fault seam (DESIGN.md §2-§5).

import (
	"crypto/sha3"
	"encoding/binary"
	"encoding/hex"
	"errors"
	"fmt"
	"hash/fnv"
	"sort"
	"strings"
	"time"

	"github.com/onflow/atree"
	"go.opentelemetry.io/otel/attribute"

	"github.com/onflow/cadence"
	"github.com/onflow/cadence/ast"
	"github.com/onflow/cadence/common"
	jsoncdc "github.com/onflow/cadence/encoding/json"
	"github.com/onflow/cadence/interpreter"
	"github.com/onflow/cadence/runtime"
	"github.com/onflow/cadence/sema"
)

// ---------------------------------------------------------------------------------------------
// injected faults

type InjectedError struct {
	Site string
	Nth  int
}

func (e *InjectedError) Error() string {
	return fmt.Sprintf("INJECTED-HOST-FAULT site=%s nth=%d", e.Site, e.Nth)
}

var ErrInjected = errors.New("INJECTED-HOST-FAULT")

func (e *InjectedError) Is(target error) bool { return target == ErrInjected }

const InjectedPanicString = "INJECTED-HOST-PANIC-STRING"

// FaultSpec places one fault in one execution.
//   Site: a callback name (Nth = n-th call of that callback), "*" (Nth = global callback index),
//         "mem" / "comp" (Nth = n-th MeterMemory / MeterComputation call), "gauge" (n-th gauge call of either kind).
//   Mode: "error" (one-shot), "sticky" (this and every later call of the site), "panic" (panic with an error value),
//         "panicstr" (panic with a string). Gauge sites are always sticky budgets.
type FaultSpec struct {
	Site string `json:"site"`
	Nth  int    `json:"nth"`
	Mode string `json:"mode"`
	// Frac, if Nth < 0, places the fault relative to the clean reference execution of the same step
	// (Nth = Frac * number of calls of the site). The runner resolves it and writes Nth back into the plan.
	Frac float64 `json:"frac,omitempty"`
}

func (f FaultSpec) String() string { return fmt.Sprintf("%s#%d/%s", f.Site, f.Nth, f.Mode) }

func (f FaultSpec) IsGauge() bool {
	return f.Site == "mem" || f.Site == "comp" || f.Site == "gauge" || f.Site == "memsum" || f.Site == "compsum"
}

// ---------------------------------------------------------------------------------------------
// trace

type Call struct {
	Kind string `json:"k"`
	Arg  string `json:"a,omitempty"`
	Res  string `json:"r,omitempty"`
}

func (c Call) String() string { return c.Kind + "(" + c.Arg + ")=" + c.Res }

type Write struct {
	Key string // hex(owner) "|" hex(key)
	Val string // hex
	Seq int    // global callback index
}

func h64(b []byte) string {
	h := fnv.New64a()
	h.Write(b)
	return fmt.Sprintf("%d:%016x", len(b), h.Sum64())
}

// ---------------------------------------------------------------------------------------------
// durable state

type World struct {
	Ledger  map[string][]byte // key: owner(8 bytes) + "|" + register key
	SlabIdx map[string]uint64
	Codes   map[common.AddressLocation][]byte
	UUID    uint64
	AcctID  map[common.Address]uint64
	Keys    map[common.Address][]*runtime.AccountKey
	NextAcc uint64
	Height  uint64
}

func NewWorld() *World {
	return &World{
		Ledger: map[string][]byte{}, SlabIdx: map[string]uint64{}, Codes: map[common.AddressLocation][]byte{},
		AcctID: map[common.Address]uint64{}, Keys: map[common.Address][]*runtime.AccountKey{}, NextAcc: 0x100, Height: 10,
	}
}

func (w *World) Clone() *World {
	c := NewWorld()
	for k, v := range w.Ledger {
		c.Ledger[k] = v // values are never mutated in place
	}
	for k, v := range w.SlabIdx {
		c.SlabIdx[k] = v
	}
	for k, v := range w.Codes {
		c.Codes[k] = v
	}
	for k, v := range w.AcctID {
		c.AcctID[k] = v
	}
	for k, v := range w.Keys {
		ks := make([]*runtime.AccountKey, len(v))
		for i, key := range v {
			kc := *key
			ks[i] = &kc
		}
		c.Keys[k] = ks
	}
	c.UUID, c.NextAcc, c.Height = w.UUID, w.NextAcc, w.Height
	return c
}

func (w *World) LedgerKeys() []string {
	ks := make([]string, 0, len(w.Ledger))
	for k := range w.Ledger {
		ks = append(ks, k)
	}
	sort.Strings(ks)
	return ks
}

// LedgerDigest is a canonical rendering of the whole ledger + code store (for replica comparison).
func (w *World) LedgerDigest() string {
	h := fnv.New128a()
	for _, k := range w.LedgerKeys() {
		h.Write([]byte(k))
		h.Write([]byte{0})
		h.Write(w.Ledger[k])
		h.Write([]byte{1})
	}
	var locs []string
	for l := range w.Codes {
		locs = append(locs, l.String())
	}
	sort.Strings(locs)
	for _, l := range locs {
		h.Write([]byte(l))
	}
	for l, c := range w.Codes {
		_ = l
		_ = c
	}
	// codes content, in sorted order
	type lc struct {
		l string
		c []byte
	}
	var lcs []lc
	for l, c := range w.Codes {
		lcs = append(lcs, lc{l.String(), c})
	}
	sort.Slice(lcs, func(i, j int) bool { return lcs[i].l < lcs[j].l })
	for _, x := range lcs {
		h.Write([]byte(x.l))
		h.Write(x.c)
		h.Write([]byte{2})
	}
	return hex.EncodeToString(h.Sum(nil))
}

func (w *World) LedgerDump() string {
	var sb strings.Builder
	for _, k := range w.LedgerKeys() {
		fmt.Fprintf(&sb, "%x=%x\n", k, w.Ledger[k])
	}
	return sb.String()
}

// ---------------------------------------------------------------------------------------------
// program cache

type progEntry struct {
	p   *runtime.Program
	err error
}

// ---------------------------------------------------------------------------------------------
// host

type Host struct {
	KeepOnAbort bool // program cache policy, see keepLoaded
	W *World

	// long-lived, non-durable
	Programs map[runtime.Location]*progEntry
	Deps     map[runtime.Location]map[runtime.Location]bool // importer -> imported
	// configuration
	DeferredCode bool // code updates invisible to GetAccountContractCode until commit
	RecordGauge  bool // keep the full gauge stream (else only count + hash)
	Hook         func(h *Host, kind string) // called at the start of every callback (scheduler yield point, C36)
	SharedLoad   func(h *Host, loc runtime.Location, load func() (*runtime.Program, error)) (*runtime.Program, error, bool)

	// per execution
	Signers     []runtime.Address
	Faults      []FaultSpec
	Trace       []Call
	Writes      []Write
	Logs        []string
	Events      []cadence.Event
	EventsJSON  []string
	EventIssues []string
	Gauge       []uint64
	GaugeN      int
	MemN, CompN int
	MemSum, CompSum uint64 // cumulative metered amounts / intensities (limits of real hosts are weighted sums)
	gaugeHash   uint64
	Fired       []string // which fault specs fired (spec string @ global seq)
	FiredSeq    int      // global callback index at which the first fault fired (-1)
	FiredGauge  int      // gauge index at which the budget tripped (-1)
	kindCount   map[string]int
	memTripped  bool
	compTripped bool
	sticky      map[string]bool

	txWrites  map[string][]byte
	txCodes   map[common.AddressLocation][]byte
	txCodeDel map[common.AddressLocation]bool
	txLoaded  []runtime.Location
	loadStack []runtime.Location
	saved     *savedCounters
	inExec    bool
}

type savedCounters struct {
	SlabIdx map[string]uint64
	UUID    uint64
	AcctID  map[common.Address]uint64
	Keys    map[common.Address][]*runtime.AccountKey
	NextAcc uint64
}

func NewHost(w *World) *Host {
	return &Host{W: w, Programs: map[runtime.Location]*progEntry{}, Deps: map[runtime.Location]map[runtime.Location]bool{}}
}

func (h *Host) Begin(signers []runtime.Address, faults []FaultSpec) {
	h.Signers = signers
	h.Faults = faults
	h.Trace, h.Writes, h.Logs, h.Events, h.EventsJSON, h.EventIssues, h.Gauge, h.Fired = nil, nil, nil, nil, nil, nil, nil, nil
	h.GaugeN, h.MemN, h.CompN, h.gaugeHash = 0, 0, 0, 14695981039346656037
	h.MemSum, h.CompSum = 0, 0
	h.FiredSeq, h.FiredGauge = -1, -1
	h.kindCount = map[string]int{}
	h.memTripped, h.compTripped = false, false
	h.sticky = map[string]bool{}
	h.txWrites = map[string][]byte{}
	h.txCodes = map[common.AddressLocation][]byte{}
	h.txCodeDel = map[common.AddressLocation]bool{}
	h.txLoaded = nil
	h.loadStack = nil
	w := h.W
	s := &savedCounters{SlabIdx: map[string]uint64{}, UUID: w.UUID, AcctID: map[common.Address]uint64{}, Keys: map[common.Address][]*runtime.AccountKey{}, NextAcc: w.NextAcc}
	for k, v := range w.SlabIdx {
		s.SlabIdx[k] = v
	}
	for k, v := range w.AcctID {
		s.AcctID[k] = v
	}
	for k, v := range w.Keys {
		ks := make([]*runtime.AccountKey, len(v))
		for i, key := range v {
			kc := *key
			ks[i] = &kc
		}
		s.Keys[k] = ks
	}
	h.saved = s
	// transaction / script programs are never cached across executions
	for l := range h.Programs {
		switch l.(type) {
		case common.TransactionLocation, common.ScriptLocation:
			delete(h.Programs, l)
			delete(h.Deps, l)
		}
	}
	h.inExec = true
}

func (h *Host) codeChanged() bool { return len(h.txCodes)+len(h.txCodeDel) > 0 }

// Commit applies the execution's buffered effects (the execution succeeded).
func (h *Host) Commit() {
	for k, v := range h.txWrites {
		if len(v) == 0 {
			delete(h.W.Ledger, k)
		} else {
			h.W.Ledger[k] = v
		}
	}
	for k, v := range h.txCodes {
		h.W.Codes[k] = v
	}
	for k := range h.txCodeDel {
		delete(h.W.Codes, k)
	}
	if h.codeChanged() {
		h.EvictAll()
	}
	h.inExec = false
}

// Abort discards the execution's effects (the execution failed, or was a script).
func (h *Host) Abort() {
	w := h.W
	w.SlabIdx, w.UUID, w.AcctID, w.Keys, w.NextAcc = h.saved.SlabIdx, h.saved.UUID, h.saved.AcctID, h.saved.Keys, h.saved.NextAcc
	for _, l := range h.txLoaded {
		if h.keepLoaded(l) {
			continue
		}
		delete(h.Programs, l)
		delete(h.Deps, l)
	}
	if h.codeChanged() {
		h.EvictAll()
	}
	h.inExec = false
}

// DiscardScript: scripts never commit registers, but read-only program loads may stay cached if the script succeeded.
func (h *Host) DiscardScript(failed bool) {
	w := h.W
	w.SlabIdx, w.UUID, w.AcctID, w.Keys, w.NextAcc = h.saved.SlabIdx, h.saved.UUID, h.saved.AcctID, h.saved.Keys, h.saved.NextAcc
	if failed || h.codeChanged() {
		for _, l := range h.txLoaded {
			if failed && h.keepLoaded(l) {
				continue
			}
			delete(h.Programs, l)
			delete(h.Deps, l)
		}
	}
	if h.codeChanged() {
		h.EvictAll()
	}
	h.inExec = false
}

// keepLoaded: a host may keep a contract program that an execution loaded successfully even if that execution failed later
// (loading is a read of committed code). Only with KeepOnAbort, only address locations, only complete loads, and never when
// the failed execution had changed contract code.
func (h *Host) keepLoaded(l runtime.Location) bool {
	if !h.KeepOnAbort || h.codeChanged() {
		return false
	}
	if _, ok := l.(common.AddressLocation); !ok {
		return false
	}
	e := h.Programs[l]
	return e != nil && e.err == nil && e.p != nil
}

func (h *Host) EvictAll() {
	h.Programs = map[runtime.Location]*progEntry{}
	h.Deps = map[runtime.Location]map[runtime.Location]bool{}
}

// Evict drops loc and, transitively, every cached program that imports it (dependency-closed eviction).
func (h *Host) Evict(loc runtime.Location) int {
	drop := map[runtime.Location]bool{loc: true}
	for changed := true; changed; {
		changed = false
		for importer, imps := range h.Deps {
			if drop[importer] {
				continue
			}
			for imp := range imps {
				if drop[imp] {
					drop[importer] = true
					changed = true
					break
				}
			}
		}
	}
	n := 0
	for l := range drop {
		if _, ok := h.Programs[l]; ok {
			n++
		}
		delete(h.Programs, l)
		delete(h.Deps, l)
	}
	return n
}

func (h *Host) CachedLocations() []string {
	var ls []string
	for l := range h.Programs {
		ls = append(ls, l.String())
	}
	sort.Strings(ls)
	return ls
}

// call records a callback and decides whether a fault fires at it.
func (h *Host) call(kind, arg string) (int, error) {
	if h.Hook != nil {
		h.Hook(h, kind)
	}
	idx := len(h.Trace)
	nth := h.kindCount[kind]
	h.kindCount[kind] = nth + 1
	h.Trace = append(h.Trace, Call{Kind: kind, Arg: arg})
	if h.sticky[kind] {
		h.Trace[idx].Res = "!sticky"
		return idx, &InjectedError{Site: kind, Nth: nth}
	}
	for _, f := range h.Faults {
		if f.IsGauge() {
			continue
		}
		if (f.Site == kind && f.Nth == nth) || (f.Site == "*" && f.Nth == idx) {
			if h.FiredSeq < 0 {
				h.FiredSeq = idx
			}
			h.Fired = append(h.Fired, fmt.Sprintf("%s@%d:%s", f.String(), idx, kind))
			h.Trace[idx].Res = "!" + f.Mode
			switch f.Mode {
			case "panic":
				panic(&InjectedError{Site: kind, Nth: nth})
			case "panicstr":
				panic(InjectedPanicString)
			case "sticky":
				h.sticky[kind] = true
				return idx, &InjectedError{Site: kind, Nth: nth}
			default:
				return idx, &InjectedError{Site: kind, Nth: nth}
			}
		}
	}
	return idx, nil
}

func (h *Host) res(idx int, r string) { h.Trace[idx].Res = r }

func lkey(owner, k []byte) string { return string(owner) + "|" + string(k) }

func hexKey(owner, k []byte) string { return hex.EncodeToString(owner) + "|" + hex.EncodeToString(k) }

// --- locations, code, programs

func (h *Host) ResolveLocation(ids []runtime.Identifier, loc runtime.Location) ([]runtime.ResolvedLocation, error) {
	var names []string
	for _, id := range ids {
		names = append(names, id.Identifier)
	}
	if _, err := h.call("ResolveLocation", loc.String()+":"+strings.Join(names, ",")); err != nil {
		return nil, err
	}
	al, ok := loc.(common.AddressLocation)
	if !ok || len(ids) == 0 {
		if ok && al.Name == "" {
			// import 0x1 without names: resolve to all contracts of the account
			var res []runtime.ResolvedLocation
			for _, n := range h.contractNames(al.Address) {
				res = append(res, runtime.ResolvedLocation{Location: common.AddressLocation{Address: al.Address, Name: n}, Identifiers: []runtime.Identifier{{Identifier: n}}})
			}
			return res, nil
		}
		return []runtime.ResolvedLocation{{Location: loc, Identifiers: ids}}, nil
	}
	var res []runtime.ResolvedLocation
	for _, id := range ids {
		res = append(res, runtime.ResolvedLocation{
			Location:    common.AddressLocation{Address: al.Address, Name: id.Identifier},
			Identifiers: []runtime.Identifier{id},
		})
	}
	return res, nil
}

func (h *Host) GetOrLoadProgram(loc runtime.Location, load func() (*runtime.Program, error)) (*runtime.Program, error) {
	idx, err := h.call("GetOrLoadProgram", loc.String())
	if err != nil {
		return nil, err
	}
	if n := len(h.loadStack); n > 0 {
		imp := h.loadStack[n-1]
		if h.Deps[imp] == nil {
			h.Deps[imp] = map[runtime.Location]bool{}
		}
		h.Deps[imp][loc] = true
	}
	if h.SharedLoad != nil {
		if p, err, handled := h.SharedLoad(h, loc, load); handled {
			return p, err
		}
	}
	if e, ok := h.Programs[loc]; ok {
		h.res(idx, "hit")
		return e.p, e.err
	}
	h.res(idx, "miss")
	h.loadStack = append(h.loadStack, loc)
	var p *runtime.Program
	var lerr error
	func() {
		defer func() { h.loadStack = h.loadStack[:len(h.loadStack)-1] }()
		p, lerr = load()
	}()
	h.Programs[loc] = &progEntry{p, lerr}
	h.txLoaded = append(h.txLoaded, loc)
	return p, lerr
}

func (h *Host) code(loc common.AddressLocation) []byte {
	if !h.DeferredCode {
		if h.txCodeDel[loc] {
			return nil
		}
		if c, ok := h.txCodes[loc]; ok {
			return c
		}
	}
	return h.W.Codes[loc]
}

func (h *Host) contractNames(a common.Address) []string {
	set := map[string]bool{}
	for l := range h.W.Codes {
		if l.Address == a && !strings.Contains(l.Name, ":") {
			set[l.Name] = true
		}
	}
	if !h.DeferredCode {
		for l := range h.txCodes {
			if l.Address == a {
				set[l.Name] = true
			}
		}
		for l := range h.txCodeDel {
			if l.Address == a {
				delete(set, l.Name)
			}
		}
	}
	var names []string
	for n := range set {
		names = append(names, n)
	}
	sort.Strings(names)
	return names
}

func (h *Host) GetAccountContractCode(loc common.AddressLocation) ([]byte, error) {
	idx, err := h.call("GetAccountContractCode", loc.String())
	if err != nil {
		return nil, err
	}
	c := h.code(loc)
	h.res(idx, h64(c))
	return c, nil
}

func (h *Host) GetCode(loc runtime.Location) ([]byte, error) {
	idx, err := h.call("GetCode", loc.String())
	if err != nil {
		return nil, err
	}
	var c []byte
	switch l := loc.(type) {
	case common.AddressLocation:
		c = h.code(l)
	case common.StringLocation:
		c = h.W.Codes[common.AddressLocation{Name: "str:" + string(l)}]
	}
	h.res(idx, h64(c))
	return c, nil
}

func (h *Host) UpdateAccountContractCode(loc common.AddressLocation, code []byte) error {
	if _, err := h.call("UpdateAccountContractCode", loc.String()+":"+h64(code)); err != nil {
		return err
	}
	h.txCodes[loc] = append([]byte(nil), code...)
	delete(h.txCodeDel, loc)
	return nil
}

func (h *Host) RemoveAccountContractCode(loc common.AddressLocation) error {
	if _, err := h.call("RemoveAccountContractCode", loc.String()); err != nil {
		return err
	}
	delete(h.txCodes, loc)
	h.txCodeDel[loc] = true
	return nil
}

func (h *Host) GetAccountContractNames(a runtime.Address) ([]string, error) {
	idx, err := h.call("GetAccountContractNames", a.String())
	if err != nil {
		return nil, err
	}
	names := h.contractNames(a)
	h.res(idx, strings.Join(names, ","))
	return names, nil
}

func (h *Host) RecoverProgram(p *ast.Program, loc common.Location) ([]byte, error) {
	idx, err := h.call("RecoverProgram", loc.String())
	if err != nil {
		return nil, err
	}
	if al, ok := loc.(common.AddressLocation); ok {
		if c, ok := h.W.Codes[common.AddressLocation{Address: al.Address, Name: "recover:" + al.Name}]; ok {
			h.res(idx, h64(c))
			return c, nil
		}
	}
	return nil, nil
}

// --- ledger

func (h *Host) GetValue(owner, k []byte) ([]byte, error) {
	idx, err := h.call("GetValue", hexKey(owner, k))
	if err != nil {
		return nil, err
	}
	v, ok := h.txWrites[lkey(owner, k)]
	if !ok {
		v = h.W.Ledger[lkey(owner, k)]
	}
	h.res(idx, h64(v))
	return v, nil
}

func (h *Host) ValueExists(owner, k []byte) (bool, error) {
	idx, err := h.call("ValueExists", hexKey(owner, k))
	if err != nil {
		return false, err
	}
	v, ok := h.txWrites[lkey(owner, k)]
	if !ok {
		v = h.W.Ledger[lkey(owner, k)]
	}
	h.res(idx, fmt.Sprint(len(v) > 0))
	return len(v) > 0, nil
}

func (h *Host) SetValue(owner, k, v []byte) error {
	idx, err := h.call("SetValue", hexKey(owner, k))
	if err != nil {
		return err
	}
	h.res(idx, h64(v))
	h.Writes = append(h.Writes, Write{Key: hexKey(owner, k), Val: hex.EncodeToString(v), Seq: idx})
	h.txWrites[lkey(owner, k)] = append([]byte(nil), v...)
	return nil
}

func (h *Host) AllocateSlabIndex(owner []byte) (atree.SlabIndex, error) {
	var r atree.SlabIndex
	idx, err := h.call("AllocateSlabIndex", hex.EncodeToString(owner))
	if err != nil {
		return r, err
	}
	h.W.SlabIdx[string(owner)]++
	binary.BigEndian.PutUint64(r[:], h.W.SlabIdx[string(owner)])
	h.res(idx, fmt.Sprint(h.W.SlabIdx[string(owner)]))
	return r, nil
}

// --- transaction context

func (h *Host) GetSigningAccounts() ([]runtime.Address, error) {
	if _, err := h.call("GetSigningAccounts", ""); err != nil {
		return nil, err
	}
	return h.Signers, nil
}

func (h *Host) ProgramLog(s string) error {
	if _, err := h.call("ProgramLog", s); err != nil {
		return err
	}
	h.Logs = append(h.Logs, s)
	return nil
}

func (h *Host) EmitEvent(e cadence.Event) error {
	id := "?"
	if e.EventType != nil {
		id = e.EventType.ID()
	}
	arg := id
	if strings.HasSuffix(id, ".World.Mark") {
		if vals := getCompositeFieldValues(e); len(vals) == 1 {
			arg += ":" + vals[0].String()
		}
	}
	idx, err := h.call("EmitEvent", arg)
	if err != nil {
		return err
	}
	h.Events = append(h.Events, e)
	js := encodeEventJSON(e)
	h.EventsJSON = append(h.EventsJSON, js)
	h.res(idx, h64([]byte(js)))
	if issue := checkEventConformance(e); issue != "" {
		h.EventIssues = append(h.EventIssues, issue)
	}
	return nil
}

func encodeEventJSON(e cadence.Event) (s string) {
	defer func() {
		if r := recover(); r != nil {
			s = fmt.Sprintf("ENCODE-PANIC: %v", r)
		}
	}()
	b, err := jsoncdc.Encode(e)
	if err != nil {
		return "ENCODE-ERROR: " + err.Error()
	}
	return string(b)
}

func (h *Host) GenerateUUID() (uint64, error) {
	idx, err := h.call("GenerateUUID", "")
	if err != nil {
		return 0, err
	}
	h.W.UUID++
	h.res(idx, fmt.Sprint(h.W.UUID))
	return h.W.UUID, nil
}

func (h *Host) GenerateAccountID(a common.Address) (uint64, error) {
	idx, err := h.call("GenerateAccountID", a.String())
	if err != nil {
		return 0, err
	}
	h.W.AcctID[a]++
	h.res(idx, fmt.Sprint(h.W.AcctID[a]))
	return h.W.AcctID[a], nil
}

func (h *Host) DecodeArgument(b []byte, t cadence.Type) (cadence.Value, error) {
	if _, err := h.call("DecodeArgument", h64(b)); err != nil {
		return nil, err
	}
	return jsoncdc.Decode(nil, b)
}

// --- block, randomness

func (h *Host) GetCurrentBlockHeight() (uint64, error) {
	idx, err := h.call("GetCurrentBlockHeight", "")
	if err != nil {
		return 0, err
	}
	h.res(idx, fmt.Sprint(h.W.Height))
	return h.W.Height, nil
}

func (h *Host) GetBlockAtHeight(height uint64) (runtime.Block, bool, error) {
	if _, err := h.call("GetBlockAtHeight", fmt.Sprint(height)); err != nil {
		return runtime.Block{}, false, err
	}
	if height > h.W.Height {
		return runtime.Block{}, false, nil
	}
	b := runtime.Block{Height: height, View: height * 3, Timestamp: int64(height) * 1_000_000_000}
	binary.BigEndian.PutUint64(b.Hash[:8], height*0x9e3779b97f4a7c15)
	return b, true, nil
}

func (h *Host) ReadRandom(b []byte) error {
	idx, err := h.call("ReadRandom", fmt.Sprint(len(b)))
	if err != nil {
		return err
	}
	// deterministic "distributed randomness": function of block height and call ordinal
	x := h.W.Height*0x9e3779b97f4a7c15 + uint64(h.kindCount["ReadRandom"])*0xbf58476d1ce4e5b9
	for i := range b {
		x ^= x << 13
		x ^= x >> 7
		x ^= x << 17
		b[i] = byte(x >> 32)
	}
	h.res(idx, hex.EncodeToString(b))
	return nil
}

// --- crypto (stubs)

func (h *Host) VerifySignature(sig []byte, tag string, data []byte, pk []byte, sa runtime.SignatureAlgorithm, ha runtime.HashAlgorithm) (bool, error) {
	idx, err := h.call("VerifySignature", h64(sig)+tag+h64(data))
	if err != nil {
		return false, err
	}
	ok := len(sig) > 0 && len(pk) > 0 && sig[0] == pk[0]
	h.res(idx, fmt.Sprint(ok))
	return ok, nil
}

func (h *Host) Hash(data []byte, tag string, algo runtime.HashAlgorithm) ([]byte, error) {
	idx, err := h.call("Hash", h64(data)+tag+fmt.Sprint(algo))
	if err != nil {
		return nil, err
	}
	s := sha3.New256()
	s.Write([]byte(tag))
	s.Write([]byte{byte(algo)})
	s.Write(data)
	out := s.Sum(nil)
	h.res(idx, hex.EncodeToString(out[:4]))
	return out, nil
}

func (h *Host) ValidatePublicKey(key *runtime.PublicKey) error {
	if _, err := h.call("ValidatePublicKey", h64(key.PublicKey)); err != nil {
		return err
	}
	if len(key.PublicKey) == 0 || key.PublicKey[0] == 0xff {
		return errors.New("invalid public key (simhost rule: empty or leading 0xff)")
	}
	return nil
}

func (h *Host) BLSVerifyPOP(pk *runtime.PublicKey, sig []byte) (bool, error) {
	if _, err := h.call("BLSVerifyPOP", h64(sig)); err != nil {
		return false, err
	}
	return len(sig) > 0 && len(pk.PublicKey) > 0 && sig[0] == pk.PublicKey[0], nil
}

func (h *Host) BLSAggregateSignatures(sigs [][]byte) ([]byte, error) {
	if _, err := h.call("BLSAggregateSignatures", fmt.Sprint(len(sigs))); err != nil {
		return nil, err
	}
	var out []byte
	for _, s := range sigs {
		out = append(out, s...)
	}
	return out, nil
}

func (h *Host) BLSAggregatePublicKeys(pks []*runtime.PublicKey) (*runtime.PublicKey, error) {
	if _, err := h.call("BLSAggregatePublicKeys", fmt.Sprint(len(pks))); err != nil {
		return nil, err
	}
	var out []byte
	for _, p := range pks {
		out = append(out, p.PublicKey...)
	}
	return &runtime.PublicKey{PublicKey: out, SignAlgo: sema.SignatureAlgorithmBLS_BLS12_381}, nil
}

// --- accounts

func (h *Host) CreateAccount(payer runtime.Address, _ interpreter.InvocationContext) (runtime.Address, error) {
	idx, err := h.call("CreateAccount", payer.String())
	if err != nil {
		return runtime.Address{}, err
	}
	h.W.NextAcc++
	var a runtime.Address
	binary.BigEndian.PutUint64(a[:], h.W.NextAcc)
	h.res(idx, a.String())
	return a, nil
}

func (h *Host) AddAccountKey(a runtime.Address, pk *runtime.PublicKey, ha runtime.HashAlgorithm, weight int) (*runtime.AccountKey, error) {
	idx, err := h.call("AddAccountKey", a.String()+h64(pk.PublicKey))
	if err != nil {
		return nil, err
	}
	k := &runtime.AccountKey{PublicKey: pk, KeyIndex: uint32(len(h.W.Keys[a])), Weight: weight, HashAlgo: ha}
	h.W.Keys[a] = append(h.W.Keys[a], k)
	h.res(idx, fmt.Sprint(k.KeyIndex))
	kc := *k
	return &kc, nil
}

func (h *Host) GetAccountKey(a runtime.Address, index uint32) (*runtime.AccountKey, error) {
	if _, err := h.call("GetAccountKey", fmt.Sprintf("%s#%d", a, index)); err != nil {
		return nil, err
	}
	ks := h.W.Keys[a]
	if int(index) >= len(ks) {
		return nil, nil
	}
	kc := *ks[index]
	return &kc, nil
}

func (h *Host) AccountKeysCount(a runtime.Address) (uint32, error) {
	if _, err := h.call("AccountKeysCount", a.String()); err != nil {
		return 0, err
	}
	return uint32(len(h.W.Keys[a])), nil
}

func (h *Host) RevokeAccountKey(a runtime.Address, index uint32) (*runtime.AccountKey, error) {
	if _, err := h.call("RevokeAccountKey", fmt.Sprintf("%s#%d", a, index)); err != nil {
		return nil, err
	}
	ks := h.W.Keys[a]
	if int(index) >= len(ks) {
		return nil, nil
	}
	ks[index].IsRevoked = true
	kc := *ks[index]
	return &kc, nil
}

func (h *Host) GetAccountBalance(a common.Address) (uint64, error) {
	if _, err := h.call("GetAccountBalance", a.String()); err != nil {
		return 0, err
	}
	return 1000_00000000 + uint64(a[7]), nil
}

func (h *Host) GetAccountAvailableBalance(a common.Address) (uint64, error) {
	if _, err := h.call("GetAccountAvailableBalance", a.String()); err != nil {
		return 0, err
	}
	return 900_00000000 + uint64(a[7]), nil
}

func (h *Host) GetStorageUsed(a runtime.Address) (uint64, error) {
	idx, err := h.call("GetStorageUsed", a.String())
	if err != nil {
		return 0, err
	}
	// bytes of registers of this account, including this execution's buffered writes
	var n uint64
	seen := map[string]bool{}
	pre := string(a[:]) + "|"
	for k, v := range h.txWrites {
		if strings.HasPrefix(k, pre) {
			seen[k] = true
			n += uint64(len(v))
		}
	}
	for k, v := range h.W.Ledger {
		if strings.HasPrefix(k, pre) && !seen[k] {
			n += uint64(len(v))
		}
	}
	h.res(idx, fmt.Sprint(n))
	return n, nil
}

func (h *Host) GetStorageCapacity(a runtime.Address) (uint64, error) {
	if _, err := h.call("GetStorageCapacity", a.String()); err != nil {
		return 0, err
	}
	return 10_000_000, nil
}

func (h *Host) ImplementationDebugLog(string) error { return nil }

func (h *Host) RecordTrace(string, time.Duration, []attribute.KeyValue) {}

func (h *Host) ResourceOwnerChanged(_ *interpreter.Interpreter, r *interpreter.CompositeValue, oldOwner, newOwner common.Address) {
	// no error return: only the panic modes can be injected here
	_, err := h.call("ResourceOwnerChanged", oldOwner.String()+">"+newOwner.String())
	if err != nil {
		panic(err)
	}
}

func (h *Host) MinimumRequiredVersion() (string, error) {
	if _, err := h.call("MinimumRequiredVersion", ""); err != nil {
		return "", err
	}
	return "0.0.0", nil
}

func (h *Host) ValidateAccountCapabilitiesGet(_ interpreter.AccountCapabilityGetValidationContext, a interpreter.AddressValue, p interpreter.PathValue, _ *sema.ReferenceType, _ *sema.ReferenceType) (bool, error) {
	if _, err := h.call("ValidateAccountCapabilitiesGet", a.String()+p.String()); err != nil {
		return false, err
	}
	return true, nil
}

func (h *Host) ValidateAccountCapabilitiesPublish(_ interpreter.AccountCapabilityPublishValidationContext, a interpreter.AddressValue, p interpreter.PathValue, _ *interpreter.ReferenceStaticType) (bool, error) {
	if _, err := h.call("ValidateAccountCapabilitiesPublish", a.String()+p.String()); err != nil {
		return false, err
	}
	return true, nil
}

// --- gauges

func (h *Host) gauge(tag uint64, kind uint64, amount uint64, isMem bool) error {
	gi := h.GaugeN
	h.GaugeN++
	var ni int
	if isMem {
		ni = h.MemN
		h.MemN++
		h.MemSum += amount
	} else {
		ni = h.CompN
		h.CompN++
		h.CompSum += amount
	}
	x := tag<<60 | (kind&0xfff)<<48 | (amount & 0xffffffffffff)
	h.gaugeHash = (h.gaugeHash ^ x) * 1099511628211
	if h.RecordGauge {
		h.Gauge = append(h.Gauge, x)
	}
	if isMem && h.memTripped {
		return &InjectedError{Site: "mem", Nth: ni}
	}
	if !isMem && h.compTripped {
		return &InjectedError{Site: "comp", Nth: ni}
	}
	for _, f := range h.Faults {
		if !f.IsGauge() {
			continue
		}
		hit := false
		switch f.Site {
		case "gauge":
			hit = f.Nth == gi
		case "mem":
			hit = isMem && f.Nth == ni
		case "comp":
			hit = !isMem && f.Nth == ni
		case "memsum":
			hit = isMem && h.MemSum > uint64(f.Nth)
		case "compsum":
			hit = !isMem && h.CompSum > uint64(f.Nth)
		}
		if hit {
			if h.FiredGauge < 0 {
				h.FiredGauge = gi
				if h.FiredSeq < 0 {
					h.FiredSeq = len(h.Trace)
				}
			}
			site := "comp"
			if isMem {
				h.memTripped = true
				site = "mem"
			} else {
				h.compTripped = true
			}
			h.Fired = append(h.Fired, fmt.Sprintf("%s@g%d:%s", f.String(), gi, site))
			return &InjectedError{Site: site, Nth: ni}
		}
	}
	return nil
}

func (h *Host) MeterMemory(u common.MemoryUsage) error {
	return h.gauge(1, uint64(u.Kind), u.Amount, true)
}

func (h *Host) MeterComputation(u common.ComputationUsage) error {
	return h.gauge(2, uint64(u.Kind), u.Intensity, false)
}

func (h *Host) GaugeDigest() string {
	return fmt.Sprintf("%d/%d/%016x", h.MemN, h.CompN, h.gaugeHash)
}

var _ runtime.Interface = &Host{}
var _ common.MemoryGauge = &Host{}
var _ common.ComputationGauge = &Host{}
