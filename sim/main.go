//go:debug randseednop=0
package main

import (
	"encoding/json"
	"flag"
	"fmt"
	"os"
	"runtime"
)

func main() {
	if len(os.Args) < 2 {
		fmt.Fprintln(os.Stderr, "usage: sim <run|check|worker|replay|selftest> ...")
		os.Exit(2)
	}
	switch os.Args[1] {
	case "run":
		devRun(os.Args[2:])
	case "exec":
		devExec(os.Args[2:])
	case "committrace":
		devCommitTrace(os.Args[2:])
	case "corpus":
		devCorpus()
	case "enum":
		devEnum()
	case "c27":
		devC27()
	case "c30":
		devC30()
	case "c36probe":
		// sequential probe: a doomed execution at every memory budget, each followed by a victim that moves resources in branches
		base := c36BaseWorld()
		n := NewNode(NodeConfig{Name: "probe", Engine: "interp", Cache: "warm", EnvReuse: true}, base.Clone())
		bad, aborted := 0, 0
		for b := 0; b < 2500; b += 3 {
			r := NewRng(uint64(b))
			t1 := n.Exec(ExecReq{Kind: "script", Source: c36ScriptT(r, 1, b, 13), Salt: uint64(b), Faults: []FaultSpec{{Site: "mem", Nth: b, Mode: "sticky"}}}, false)
			if t1.Class != "ok" {
				aborted++
			}
			t2 := n.Exec(ExecReq{Kind: "script", Source: c36ScriptT(r, 2, b, 13), Salt: uint64(100000 + b)}, false)
			if t2.Class != "ok" {
				bad++
				if bad < 4 {
					fmt.Println("budget", b, "victim failed:", t2.ErrType, clip(fmt.Sprint(t2.Err), 500))
				}
			}
		}
		fmt.Println("aborted", aborted, "victims failing", bad)
	case "c36templates":
		devC36Templates()
	case "c35zoo":
		var seed uint64
		fmt.Sscanf(os.Args[2], "%d", &seed)
		if len(os.Args) > 3 {
			z := genCompileZoo(seed)
			for _, c := range z.Contracts {
				fmt.Printf("--- %s at 0x%x\n%s", c.Name, c.Addr, c.Src)
			}
			fmt.Println("--- tx\n" + z.Tx)
		}
		r := compileZoo(seed, 4)
		fmt.Printf("programs=%d instructions=%d digest=%s\n", r.Programs, r.Instr, r.Digest)
		for _, v := range r.Violations {
			fmt.Println("VIOL", clip(v.String(), 4000))
		}
	case "selftest":
		os.Exit(cmdSelftest(os.Args[2:]))
	case "scn":
		devScenarios(os.Args[2:])
	case "c28item":
		// sim c28item <item> <engine> <index> <mode>: one faulted execution of a C28 corpus item, with its callback trace
		for _, it := range corpus() {
			if it.Name != os.Args[2] {
				continue
			}
			var idx int
			fmt.Sscanf(os.Args[4], "%d", &idx)
			_, t := it.execItem(it.baseWorld(), os.Args[3], []FaultSpec{{Site: "*", Nth: idx, Mode: os.Args[5]}})
			for i, c := range t.Trace {
				fmt.Printf("%3d %s\n", i, clip(c.String(), 160))
			}
			fmt.Println("class", t.Class, t.ErrType, "fired", t.Fired, "result", clip(t.Result, 600))
			if t.Err != nil {
				fmt.Println(clip(t.Err.Error(), 1500))
			}
		}
	case "c44gen":
		devC44Gen(os.Args[2:])
	case "c44zoo":
		devC44Zoo(os.Args[2:])
	case "c36child":
		os.Exit(c36Child(os.Args[2:]))
	default:
		if !dispatch(os.Args[1], os.Args[2:]) {
			fmt.Fprintln(os.Stderr, "unknown command", os.Args[1])
			os.Exit(2)
		}
	}
}

func devRun(args []string) {
	fs := flag.NewFlagSet("run", flag.ExitOnError)
	prop := fs.String("prop", "C22", "property preset")
	seed := fs.Uint64("seed", 1, "first plan seed")
	plans := fs.Int("plans", 1, "number of plans")
	verbose := fs.Bool("v", false, "verbose")
	dump := fs.Bool("dump", false, "dump plan JSON")
	src := fs.Bool("src", false, "print generated sources")
	fs.Parse(args)
	total := NewRunStats()
	nviol := 0
	for k := 0; k < *plans; k++ {
		s := *seed + uint64(k)
		r := NewRng(s)
		g := &Gen{R: r, Cfg: cfgFor(*prop, r)}
		p := g.Plan(s)
		if *dump {
			b, _ := json.MarshalIndent(p, "", " ")
			fmt.Println(string(b))
		}
		if *src {
			for i, st := range p.Steps {
				if st.Kind == "tx" {
					fmt.Printf("--- step %d\n%s\n", i, TxSource(st.Ops, p.NAccts, NewModel(p.NAccts)))
				}
			}
		}
		run := RunPlan(p, RunOpts{Health: true, Readback: true, Verbose: *verbose})
		total.Merge(run.Stats)
		nviol += len(run.V)
		fmt.Printf("dbgChanged=%d ", dbgEventDeclChanged)
		fmt.Printf("seed %d: steps=%d committed=%d predictedFails=%d execs=%d aborted=%d notfired=%d violations=%d\n", s, run.Stats.Steps, run.Stats.Committed, run.Stats.PredictedFails, run.Stats.Execs, run.Stats.AbortedAttempts, run.Stats.NotFired, len(run.V))
		for i, v := range run.V {
			if i < 6 {
				fmt.Println("   ", clip(v.String(), 1500))
			}
		}
	}
	fmt.Printf("DBG calls=%d eventDeclChangedBetweenCalls=%d\n", dbgCalls, dbgEventDeclChanged)
	fmt.Printf("TOTAL execs=%d steps=%d committed=%d faults=%v probes=%v failkinds=%v states=%d violations=%d\n", total.Execs, total.Steps, total.Committed, total.FaultsFired, total.Probes, total.FailKinds, len(total.ModelStates), nviol)
}

func dispatch(cmd string, args []string) bool {
	switch cmd {
	case "check":
		os.Exit(cmdCheck(args))
	case "worker":
		os.Exit(cmdWorker(args))
	case "replay":
		os.Exit(cmdReplay(args))
	}
	return false
}

func numCPU() int { return runtime.NumCPU() }

// cmdSelftest: determinism self-test. `sim selftest -seeds N -first S` executes N plans (all families, all fault kinds, scenarios)
// twice in this process and prints one line per plan: "<seed> <chain>", where the chain hashes every execution of every node
// (outcome, observations, events, logs, ordered register writes, complete callback trace, gauge stream, fired faults). A plan
// whose two in-process runs differ is reported and the exit code is 1. tools/selftest.sh runs this in several fresh processes
// with different GOMAXPROCS / CPU affinity and diffs the outputs.
func cmdSelftest(args []string) int {
	fs := flag.NewFlagSet("selftest", flag.ExitOnError)
	n := fs.Int("seeds", 30, "number of plans")
	first := fs.Uint64("first", 1, "first plan seed")
	prop := fs.String("prop", "C33", "generator preset")
	logf := fs.String("log", "", "write one line per execution to <log>.0 / <log>.1")
	fs.Parse(args)
	bad := 0
	for k := 0; k < *n; k++ {
		s := *first + uint64(k)
		var chains [2]string
		for rep := 0; rep < 2; rep++ {
			if *logf != "" {
				chainLog, _ = os.Create(fmt.Sprintf("%s.%d", *logf, rep))
			}
			r := NewRng(s)
			g := &Gen{R: r, Cfg: cfgFor(*prop, r)}
			run := RunPlan(g.Plan(s), RunOpts{})
			chains[rep] = fmt.Sprintf("%s execs=%d", run.Chain, run.Stats.Execs)
		}
		if chains[0] != chains[1] {
			bad++
			fmt.Printf("%d NOT-DETERMINISTIC-IN-PROCESS %s vs %s\n", s, chains[0], chains[1])
			continue
		}
		fmt.Printf("%d %s\n", s, chains[0])
	}
	if bad > 0 {
		return 1
	}
	return 0
}
