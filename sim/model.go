package main

// Reference model (DESIGN.md §3.5) and operation library: for every Op a Cadence snippet generator (Code)
// and a model transition (Apply). The model is plain Go and never calls into Cadence.

import (
	"fmt"
	"sort"
	"strings"
)

type SubOp struct {
	S string `json:"s"`
	I int    `json:"i,omitempty"`
	J int    `json:"j,omitempty"`
	V *Val   `json:"v,omitempty"`
	K *Val   `json:"k,omitempty"`
}

type Op struct {
	K   string  `json:"k"`
	A   int     `json:"a,omitempty"`
	B   int     `json:"b,omitempty"`
	P   string  `json:"p,omitempty"`
	Q   string  `json:"q,omitempty"`
	T   *Ty     `json:"t,omitempty"`
	V   *Val    `json:"v,omitempty"`
	I   int     `json:"i,omitempty"`
	J   int     `json:"j,omitempty"`
	S   string  `json:"s,omitempty"`
	M   string  `json:"m,omitempty"` // mode
	Sub []SubOp `json:"sub,omitempty"`
	Ix  []int   `json:"ix,omitempty"`
	N   int     `json:"n,omitempty"` // nonce: distinguishes constants / temp names of this op
	Edge bool   `json:"-"`           // generator hint: a deliberately failing boundary case
}

func (o Op) Family() string {
	switch {
	case strings.HasPrefix(o.K, "st."):
		return "storage"
	case strings.HasPrefix(o.K, "r."):
		return "resource"
	case strings.HasPrefix(o.K, "c."):
		return "container"
	case strings.HasPrefix(o.K, "cp."):
		return "copy"
	case strings.HasPrefix(o.K, "at."):
		return "attachment"
	case strings.HasPrefix(o.K, "ev."):
		return "event"
	case strings.HasPrefix(o.K, "cap."):
		return "capability"
	case strings.HasPrefix(o.K, "ct."):
		return "contract"
	case strings.HasPrefix(o.K, "x."):
		return "control"
	case strings.HasPrefix(o.K, "h."):
		return "hostsvc"
	}
	return "?"
}

// property that a model mismatch in this op's family is attributed to
func (o Op) Property() string {
	switch o.Family() {
	case "storage":
		return "C22"
	case "resource":
		return "C02"
	case "container":
		return "C20"
	case "copy":
		return "C05"
	case "attachment":
		return "C49"
	case "event":
		return "C48"
	case "capability":
		return "C25"
	case "contract":
		return "C26"
	}
	return "C22"
}

// ---------------------------------------------------------------------------------------------

type Acct struct {
	Storage map[string]*Val
}

type Model struct {
	Accts map[int]*Acct
	NextU int
	Caps  *CapModel
	Ctr   *ContractModel
}

func NewModel(naccts int) *Model {
	m := &Model{Accts: map[int]*Acct{}}
	for i := 1; i <= naccts; i++ {
		m.Accts[i] = &Acct{Storage: map[string]*Val{}}
	}
	m.Caps = NewCapModel()
	m.Ctr = NewContractModel()
	return m
}

func (m *Model) Clone() *Model {
	c := &Model{Accts: map[int]*Acct{}, NextU: m.NextU}
	for i, a := range m.Accts {
		ca := &Acct{Storage: map[string]*Val{}}
		for p, v := range a.Storage {
			ca.Storage[p] = v.Clone()
		}
		c.Accts[i] = ca
	}
	c.Caps = m.Caps.Clone()
	c.Ctr = m.Ctr.Clone()
	return c
}

// StateHash is the "distinct model state" measure for evidence.
func (m *Model) StateHash() string {
	var parts []string
	for i := 1; i <= len(m.Accts); i++ {
		a := m.Accts[i]
		var ps []string
		for p := range a.Storage {
			ps = append(ps, p)
		}
		sort.Strings(ps)
		for _, p := range ps {
			parts = append(parts, fmt.Sprintf("%d/%s=%s", i, p, a.Storage[p].Canon()))
		}
	}
	parts = append(parts, m.Caps.Hash(), m.Ctr.Hash())
	return h64([]byte(strings.Join(parts, ";")))
}

func (m *Model) freshU() string {
	m.NextU++
	return fmt.Sprintf("u%d", m.NextU)
}

// LiveUUIDs returns the uuid placeholders of all resources in storage.
func (m *Model) LiveUUIDs() []string {
	var out []string
	for i := 1; i <= len(m.Accts); i++ {
		for _, p := range sortedKeys(m.Accts[i].Storage) {
			m.Accts[i].Storage[p].CollectUUIDs(&out)
		}
	}
	return out
}

// Pred is what the model predicts for one execution.
type Pred struct {
	Obs    []string
	Events []string // canonical rendering of expected non-Obs events (compared as a multiset)
	Fail   string   // "" or failure kind
	FailOp int
}

func (p *Pred) obs(tag string, canon string) { p.Obs = append(p.Obs, tag+"="+canon) }

func (p *Pred) destroyed(v *Val) {
	// default destruction events, for the resource and everything nested in it
	if v == nil {
		return
	}
	switch v.T.K {
	case "R":
		for _, k := range v.F["kids"].Elems {
			p.destroyed(k)
		}
		nm := v.F["named"]
		for i := range nm.Vals {
			p.destroyed(nm.Vals[i])
		}
		if o := v.F["opt"]; o != nil {
			p.destroyed(o.Opt)
		}
		for _, an := range sortedKeys(v.Atts) {
			a := v.Atts[an]
			switch an {
			case "A":
				p.Events = append(p.Events, fmt.Sprintf("%sA.ResourceDestroyed(n: %s, baseId: %s)", worldPrefix, a.F["n"].Canon(), v.F["id"].Canon()))
			case "B":
				p.Events = append(p.Events, fmt.Sprintf("%sB.ResourceDestroyed(m: %s)", worldPrefix, a.F["m"].Canon()))
			}
		}
		p.Events = append(p.Events, fmt.Sprintf("%sR.ResourceDestroyed(uuid: UInt64(‹%s›), id: %s, n: %s, kids: Int(%d))",
			worldPrefix, v.U, v.F["id"].Canon(), v.F["n"].Canon(), len(v.F["kids"].Elems)))
		// the default destruction event inherited from the interface R conforms to
		p.Events = append(p.Events, fmt.Sprintf("%sRI.ResourceDestroyed(tag: \"ri\", rid: %s)", worldPrefix, v.F["id"].Canon()))
	case "V":
		p.Events = append(p.Events, fmt.Sprintf("%sV.ResourceDestroyed(uuid: UInt64(‹%s›), bal: %s, obal: ?(%s))", worldPrefix, v.U, v.F["bal"].Canon(), v.F["bal"].Canon()))
	case "Arr", "CArr":
		for _, e := range v.Elems {
			p.destroyed(e)
		}
	case "Dict":
		for _, e := range v.Vals {
			p.destroyed(e)
		}
	case "Opt":
		p.destroyed(v.Opt)
	}
}

func (p *Pred) made(id int64, u string) {
	p.Events = append(p.Events, fmt.Sprintf("%sMade(id: Int(%d), uuid: UInt64(‹%s›))", worldPrefix, id, u))
}

// failure kinds
const (
	FOverwrite = "overwrite"
	FTypeMis   = "typeMismatch"
	FNil       = "nilUnwrap"
	FIndex     = "index"
	FSlice     = "slice"
	FPanic     = "panic"
	FAssert    = "assert"
	FCondition = "condition"
	FDupAttach = "dupAttach"
	FOther     = "other"
)

func sp(p string) string { return "/storage/" + p }
func sv(a int) string    { return fmt.Sprintf("s%d", a) }

// ---------------------------------------------------------------------------------------------
// code generation + model transition, op by op

// Code renders the op as Cadence statements. k makes local names unique.
func (o Op) Code(k int, m *Model) string {
	n := func(s string) string { return fmt.Sprintf("%s_%d", s, k) }
	st := sv(o.A) + ".storage"
	var b strings.Builder
	w := func(f string, a ...any) { fmt.Fprintf(&b, "        "+f+"\n", a...) }
	switch o.K {
	case "r.lin":
		b.WriteString(linSnippet(o.I, k))
	// ---- storage family
	case "st.save":
		w(`%s.save(%s, to: %s)`, st, o.V.Lit(), sp(o.P))
	case "st.load":
		ot, cast := o.obsType(m)
		w(`%s`, ob("ld", ot, true, fmt.Sprintf("%s.load<%s>(from: %s)%s", st, o.T.Src(), sp(o.P), cast)))
	case "st.copy":
		ot, cast := o.obsType(m)
		w(`%s`, ob("cp", ot, true, fmt.Sprintf("%s.copy<%s>(from: %s)%s", st, o.T.Src(), sp(o.P), cast)))
	case "st.borrow":
		w(`let %s = %s.borrow<&%s>(from: %s)`, n("ref"), st, o.T.Src(), sp(o.P))
		pt, pe := o.T.project(n("ref") + "!")
		w(`if %s == nil { %s } else { %s }`, n("ref"), ob("br", pt, true, "nil"), ob("br", pt, false, pe))
	case "st.check":
		w(`%s`, ob("ck", TBool, false, fmt.Sprintf("%s.check<%s>(from: %s)", st, o.T.Ann(), sp(o.P))))
	case "st.type":
		w(`%s`, ob("ty", TString, true, fmt.Sprintf("%s.type(at: %s)?.identifier", st, sp(o.P))))
	case "st.paths":
		w(`%s`, ob("~sp", TArr(TPath), false, "*"+st+".storagePaths"))
	case "st.foreach":
		w(`var %s: [String] = []`, n("acc"))
		w(`World.mark("ITER-BEGIN")`)
		w(`%s.forEachStored(fun (p: StoragePath, t: Type): Bool { %s.append(p.toString().concat(":").concat(t.identifier)); return true })`, st, n("acc"))
		w(`World.mark("ITER-END")`)
		w(`%s`, ob("~fe", TArr(TString), false, n("acc")))
	case "st.loadR": // load a resource with type argument T, observe, put it back at Q (or destroy if Q == "")
		w(`if let %s <- %s.load<%s>(from: %s) {`, n("r"), st, o.T.Ann(), sp(o.P))
		w(`    %s`, ob("ldR", TString, false, n("r")+".getType().identifier"))
		if o.Q == "" {
			w(`    destroy %s`, n("r"))
		} else {
			w(`    %s.storage.save(<-%s, to: %s)`, sv(o.B), n("r"), sp(o.Q))
		}
		w(`} else { %s }`, ob("ldR", TString, true, "nil"))

	// ---- resource family
	case "r.make":
		w(`let %s <- World.make(%d)`, n("r"), o.I)
		w(`%s`, ob("mk", TU64, false, n("r")+".uuid"))
		w(`%s.save(<-%s, to: %s)`, st, n("r"), sp(o.P))
	case "r.makeV":
		w(`let %s <- World.makeV(%d)`, n("v"), o.I)
		w(`%s`, ob("mkV", TU64, false, n("v")+".uuid"))
		w(`%s.save(<-%s, to: %s)`, st, n("v"), sp(o.P))
	case "r.move":
		w(`let %s <- %s.load<@World.R>(from: %s)!`, n("r"), st, sp(o.P))
		w(`%s.storage.save(<-%s, to: %s)`, sv(o.B), n("r"), sp(o.Q))
	case "r.nest":
		w(`let %s <- %s.load<@World.R>(from: %s)!`, n("r"), st, sp(o.P))
		w(`let %s = %s.storage.borrow<&World.R>(from: %s)!`, n("par"), sv(o.B), sp(o.Q))
		w(`%s%s.add(<-%s)`, n("par"), o.kidPath(), n("r"))
	case "r.put":
		w(`let %s <- %s.load<@World.R>(from: %s)!`, n("r"), st, sp(o.P))
		w(`let %s = %s.storage.borrow<&World.R>(from: %s)!`, n("par"), sv(o.B), sp(o.Q))
		w(`%s%s.put(%q, <-%s)`, n("par"), o.kidPath(), o.S, n("r"))
	case "r.take":
		w(`let %s = %s.borrow<&World.R>(from: %s)!`, n("par"), st, sp(o.P))
		w(`let %s <- %s%s.take(%d)`, n("k"), n("par"), o.kidPath(), o.I)
		w(`%s`, ob("tk", TU64, false, n("k")+".uuid"))
		w(`%s.storage.save(<-%s, to: %s)`, sv(o.B), n("k"), sp(o.Q))
	case "r.takeNamed":
		w(`let %s = %s.borrow<&World.R>(from: %s)!`, n("par"), st, sp(o.P))
		w(`if let %s <- %s%s.takeNamed(%q) {`, n("k"), n("par"), o.kidPath(), o.S)
		w(`    %s`, ob("tn", TU64, false, n("k")+".uuid"))
		w(`    %s.storage.save(<-%s, to: %s)`, sv(o.B), n("k"), sp(o.Q))
		w(`} else { %s }`, ob("tn", TU64, true, "nil"))
	case "r.setOpt": // move stored resource (B,Q) into opt field of (A,P); the old opt value is destroyed
		w(`let %s = %s.borrow<&World.R>(from: %s)!`, n("par"), st, sp(o.P))
		w(`let %s <- %s.storage.load<@World.R>(from: %s)`, n("r"), sv(o.B), sp(o.Q))
		w(`let %s <- %s%s.setOpt(<-%s)`, n("old"), n("par"), o.kidPath(), n("r"))
		w(`%s`, ob("so", TU64, true, n("old")+"?.uuid"))
		w(`destroy %s`, n("old"))
	case "r.destroy":
		w(`let %s <- %s.load<@World.R>(from: %s)`, n("r"), st, sp(o.P))
		w(`%s`, ob("de", TU64, true, n("r")+"?.uuid"))
		w(`destroy %s`, n("r"))
	case "r.destroyKid":
		w(`let %s = %s.borrow<&World.R>(from: %s)!`, n("par"), st, sp(o.P))
		w(`destroy %s%s.take(%d)`, n("par"), o.kidPath(), o.I)
	case "r.touch":
		w(`let %s = %s.borrow<&World.R>(from: %s)!`, n("par"), st, sp(o.P))
		w(`%s%s.setN(%d)`, n("par"), o.kidPath(), o.I)
		w(`%s%s.push(%d)`, n("par"), o.kidPath(), o.J)
	case "r.snap":
		w(`%s`, ob("sn", TSnap, true, fmt.Sprintf("%s.borrow<&World.R>(from: %s)?.snap()", st, sp(o.P))))
	case "r.swap":
		w(`let %s <- %s.load<@World.R>(from: %s)!`, n("x"), st, sp(o.P))
		w(`let %s <- %s.storage.load<@World.R>(from: %s)!`, n("y"), sv(o.B), sp(o.Q))
		w(`%s.save(<-%s, to: %s)`, st, n("y"), sp(o.P))
		w(`%s.storage.save(<-%s, to: %s)`, sv(o.B), n("x"), sp(o.Q))
	case "r.arrNew":
		w(`%s.save(<- ([] as @[World.R]), to: %s)`, st, sp(o.P))
	case "r.arrPush":
		w(`let %s <- %s.load<@World.R>(from: %s)!`, n("r"), st, sp(o.P))
		w(`let %s = %s.storage.borrow<auth(Mutate) &[World.R]>(from: %s)!`, n("arr"), sv(o.B), sp(o.Q))
		w(`%s.append(<-%s)`, n("arr"), n("r"))
	case "r.arrPop":
		w(`let %s = %s.borrow<auth(Mutate) &[World.R]>(from: %s)!`, n("arr"), st, sp(o.P))
		w(`let %s <- %s.remove(at: %d)`, n("r"), n("arr"), o.I)
		w(`%s`, ob("ap", TU64, false, n("r")+".uuid"))
		w(`%s.storage.save(<-%s, to: %s)`, sv(o.B), n("r"), sp(o.Q))
	case "r.arrDestroy":
		w(`let %s <- %s.load<@[World.R]>(from: %s)`, n("arr"), st, sp(o.P))
		w(`%s`, ob("ad", TInt, true, n("arr")+"?.length"))
		w(`destroy %s`, n("arr"))
	case "r.dictNew":
		w(`%s.save(<- ({} as @{String: World.R}), to: %s)`, st, sp(o.P))
	case "r.dictPut":
		w(`let %s <- %s.load<@World.R>(from: %s)!`, n("r"), st, sp(o.P))
		w(`let %s = %s.storage.borrow<auth(Mutate) &{String: World.R}>(from: %s)!`, n("d"), sv(o.B), sp(o.Q))
		w(`let %s <- %s.insert(key: %q, <-%s)`, n("old"), n("d"), o.S, n("r"))
		w(`%s`, ob("dp", TU64, true, n("old")+"?.uuid"))
		w(`destroy %s`, n("old"))
	case "r.dictTake":
		w(`let %s = %s.borrow<auth(Mutate) &{String: World.R}>(from: %s)!`, n("d"), st, sp(o.P))
		w(`if let %s <- %s.remove(key: %q) {`, n("r"), n("d"), o.S)
		w(`    %s`, ob("dt", TU64, false, n("r")+".uuid"))
		w(`    %s.storage.save(<-%s, to: %s)`, sv(o.B), n("r"), sp(o.Q))
		w(`} else { %s }`, ob("dt", TU64, true, "nil"))

	// ---- control
	case "x.panic":
		w(`World.fail(%q)`, o.S)
	case "x.assert":
		w(`assert(%d < 0, message: %q)`, o.I, o.S)
	case "x.recurse":
		w(`%s`, ob("rc", TInt, false, fmt.Sprintf("World.rec(%d, %v)", o.I, o.J == 1)))
	case "x.loop":
		w(`var %s = 0`, n("i"))
		w(`var %s = 0`, n("acc"))
		w(`while %s < %d { %s = %s + %s * 3; %s = %s + 1 }`, n("i"), o.I, n("acc"), n("acc"), n("i"), n("i"), n("i"))
		w(`%s`, ob("lp", TInt, false, n("acc")))

	// ---- events
	case "ev.rich":
		w(`World.rich(%d)`, o.I)

	default:
		if code, ok := o.codeContainers(k, m); ok {
			return code
		}
		if code, ok := o.codeCopy(k); ok {
			return code
		}
		if code, ok := o.codeAttach(k); ok {
			return code
		}
		if code, ok := o.codeCaps(k); ok {
			return code
		}
		if code, ok := o.codeContracts(k); ok {
			return code
		}
		if code, ok := o.codeHostSvc(k); ok {
			return code
		}
		panic("harness: no code for op " + o.K)
	}
	return b.String()
}

// kidPath renders the descent `.kid(i).kid(j)` into nested resources.
func (o Op) kidPath() string {
	var s string
	for _, i := range o.Ix {
		s += fmt.Sprintf(".kid(%d)", i)
	}
	return s
}

// project renders an observation through a reference of type &T.
func (t *Ty) project(ref string) (*Ty, string) {
	switch t.K {
	case "Int", "String", "Bool":
		return t, "*" + ref
	case "Arr", "CArr", "Dict":
		return TInt, ref + ".length"
	case "S":
		return TInt, ref + ".a"
	case "E":
		return TU8, ref + ".rawValue"
	case "R":
		return TInt, ref + ".id"
	case "V":
		return TInt, ref + ".bal"
	}
	return TString, ref + ".getType().identifier"
}

// obsType: the static type under which the result of load<T>/copy<T> is observed, and the cast that gets there.
// When T is a proper supertype of the stored value's type the result is downcast to the type the model expects.
func (o Op) obsType(m *Model) (*Ty, string) {
	if m != nil {
		if v := m.Accts[o.A].Storage[o.P]; v != nil && !v.T.Equal(o.T) && SubType(v.T, o.T) && !v.T.IsResource() {
			return v.T, " as! " + v.T.Src() + "?"
		}
	}
	if obsSupported(o.T) {
		return o.T, ""
	}
	// nothing (or nothing suitable) stored: the result is nil or the execution fails before the observation
	return TInt, " as! Int?"
}

// projectModel is the model of project.
func (t *Ty) projectModel(v *Val) string {
	switch t.K {
	case "Int", "String", "Bool":
		return v.Canon()
	case "Arr", "CArr":
		return fmt.Sprintf("Int(%d)", len(v.Elems))
	case "Dict":
		return fmt.Sprintf("Int(%d)", len(v.Keys))
	case "S":
		return v.F["a"].Canon()
	case "E":
		return fmt.Sprintf("UInt8(%d)", v.I)
	case "R":
		return v.F["id"].Canon()
	case "V":
		return v.F["bal"].Canon()
	}
	return fmt.Sprintf("%q", v.T.ID())
}

// optCanon: observation of a T? result (the top-level optional of an observation is not rendered)
func optCanon(v *Val) string {
	if v == nil {
		return "nil"
	}
	return v.ObsCanon()
}

func uuidCanon(v *Val) string { return "UInt64(‹" + v.U + "›)" }

// descend follows Ix through kids; returns nil, FIndex on an invalid index.
func descend(v *Val, ix []int) (*Val, string) {
	for _, i := range ix {
		kids := v.F["kids"].Elems
		if i < 0 || i >= len(kids) {
			return nil, FIndex
		}
		v = kids[i]
	}
	return v, ""
}

// loadTyped models load<T>/copy<T>/borrow<&T> on a path: (value, failure)
func (m *Model) typed(a int, p string, t *Ty) (*Val, string) {
	v := m.Accts[a].Storage[p]
	if v == nil {
		return nil, ""
	}
	if !SubType(v.T, t) {
		return nil, FTypeMis
	}
	return v, ""
}

// loadR models `load<@World.R>(from:)!`
func (m *Model) loadR(a int, p string) (*Val, string) {
	v, f := m.typed(a, p, TR)
	if f != "" {
		return nil, f
	}
	if v == nil {
		return nil, FNil
	}
	delete(m.Accts[a].Storage, p)
	return v, ""
}

func (m *Model) borrowR(a int, p string) (*Val, string) {
	v, f := m.typed(a, p, TR)
	if f != "" {
		return nil, f
	}
	if v == nil {
		return nil, FNil
	}
	return v, ""
}

func (m *Model) save(a int, p string, v *Val) string {
	if m.Accts[a].Storage[p] != nil {
		return FOverwrite
	}
	m.Accts[a].Storage[p] = v
	return ""
}

// Apply is the model transition of one op. It returns a failure kind ("" = none): the transaction aborts there.
func (m *Model) Apply(o Op, pr *Pred) string {
	var stg map[string]*Val
	if a := m.Accts[o.A]; a != nil {
		stg = a.Storage
	}
	switch o.K {
	case "r.lin":
		return FChecker
	case "st.save":
		return m.save(o.A, o.P, o.V.Clone())
	case "st.load":
		v, f := m.typed(o.A, o.P, o.T)
		if f != "" {
			return f
		}
		pr.obs("ld", optCanon(v))
		delete(stg, o.P)
	case "st.copy":
		v, f := m.typed(o.A, o.P, o.T)
		if f != "" {
			return f
		}
		pr.obs("cp", optCanon(v))
	case "st.borrow":
		v, f := m.typed(o.A, o.P, o.T)
		if f != "" {
			return f
		}
		if v == nil {
			pr.obs("br", "nil")
		} else {
			pr.obs("br", o.T.projectModel(v))
		}
	case "st.check":
		v, f := m.typed(o.A, o.P, o.T)
		pr.obs("ck", fmt.Sprint(v != nil && f == ""))
	case "st.type":
		if v := stg[o.P]; v != nil {
			pr.obs("ty", fmt.Sprintf("%q", v.T.ID()))
		} else {
			pr.obs("ty", "nil")
		}
	case "st.paths":
		var ps []string
		for _, p := range sortedKeys(stg) {
			ps = append(ps, sp(p))
		}
		pr.obs("~sp", "["+strings.Join(ps, ", ")+"]")
	case "st.foreach":
		var ps []string
		for _, p := range sortedKeys(stg) {
			ps = append(ps, fmt.Sprintf("%q", sp(p)+":"+stg[p].T.ID()))
		}
		sort.Strings(ps)
		pr.obs("~fe", "["+strings.Join(ps, ", ")+"]")
	case "st.loadR":
		v, f := m.typed(o.A, o.P, o.T)
		if f != "" {
			return f
		}
		if v == nil {
			pr.obs("ldR", "nil")
			return ""
		}
		delete(stg, o.P)
		pr.obs("ldR", fmt.Sprintf("%q", v.T.ID()))
		if o.Q == "" {
			pr.destroyed(v)
		} else if f := m.save(o.B, o.Q, v); f != "" {
			return f
		}

	case "r.make":
		u := m.freshU()
		pr.made(int64(o.I), u)
		r := NewR(int64(o.I), u)
		pr.obs("mk", uuidCanon(r))
		return m.save(o.A, o.P, r)
	case "r.makeV":
		u := m.freshU()
		v := &Val{T: TV, U: u, F: map[string]*Val{"bal": VInt(int64(o.I))}}
		pr.obs("mkV", uuidCanon(v))
		return m.save(o.A, o.P, v)
	case "r.move":
		r, f := m.loadR(o.A, o.P)
		if f != "" {
			return f
		}
		return m.save(o.B, o.Q, r)
	case "r.nest", "r.put":
		r, f := m.loadR(o.A, o.P)
		if f != "" {
			return f
		}
		par, f := m.borrowR(o.B, o.Q)
		if f != "" {
			return f
		}
		par, f = descend(par, o.Ix)
		if f != "" {
			return f
		}
		if o.K == "r.nest" {
			par.F["kids"].Elems = append(par.F["kids"].Elems, r)
		} else {
			old := par.F["named"].DictSet(VStr(o.S), r)
			pr.destroyed(old)
		}
	case "r.take", "r.destroyKid":
		par, f := m.borrowR(o.A, o.P)
		if f != "" {
			return f
		}
		par, f = descend(par, o.Ix)
		if f != "" {
			return f
		}
		kids := par.F["kids"]
		if o.I < 0 || o.I >= len(kids.Elems) {
			return FIndex
		}
		k := kids.Elems[o.I]
		kids.Elems = append(kids.Elems[:o.I:o.I], kids.Elems[o.I+1:]...)
		if o.K == "r.destroyKid" {
			pr.destroyed(k)
			return ""
		}
		pr.obs("tk", uuidCanon(k))
		return m.save(o.B, o.Q, k)
	case "r.takeNamed":
		par, f := m.borrowR(o.A, o.P)
		if f != "" {
			return f
		}
		par, f = descend(par, o.Ix)
		if f != "" {
			return f
		}
		k := par.F["named"].DictRemove(VStr(o.S))
		if k == nil {
			pr.obs("tn", "nil")
			return ""
		}
		pr.obs("tn", uuidCanon(k))
		return m.save(o.B, o.Q, k)
	case "r.setOpt":
		par, f := m.borrowR(o.A, o.P)
		if f != "" {
			return f
		}
		r, f := m.typed(o.B, o.Q, TR)
		if f != "" {
			return f
		}
		if r != nil {
			delete(m.Accts[o.B].Storage, o.Q)
		}
		// NOTE: if (B,Q) == (A,P) the parent itself was just loaded out of storage; the reference `par` is then invalid
		if r != nil && o.A == o.B && o.P == o.Q {
			return "invalidRef"
		}
		par, f = descend(par, o.Ix)
		if f != "" {
			return f
		}
		old := par.F["opt"].Opt
		par.F["opt"] = &Val{T: TOpt(TR), Opt: r}
		if old == nil {
			pr.obs("so", "nil")
		} else {
			pr.obs("so", uuidCanon(old))
			pr.destroyed(old)
		}
	case "r.destroy":
		v, f := m.typed(o.A, o.P, TR)
		if f != "" {
			return f
		}
		if v == nil {
			pr.obs("de", "nil")
			return ""
		}
		delete(stg, o.P)
		pr.obs("de", uuidCanon(v))
		pr.destroyed(v)
	case "r.touch":
		par, f := m.borrowR(o.A, o.P)
		if f != "" {
			return f
		}
		par, f = descend(par, o.Ix)
		if f != "" {
			return f
		}
		par.F["n"] = VInt(int64(o.I))
		par.F["data"].Elems = append(par.F["data"].Elems, VInt(int64(o.J)))
	case "r.snap":
		v, f := m.typed(o.A, o.P, TR)
		if f != "" {
			return f
		}
		if v == nil {
			pr.obs("sn", "nil")
		} else {
			pr.obs("sn", v.Snap().Canon())
		}
	case "r.swap":
		x, f := m.loadR(o.A, o.P)
		if f != "" {
			return f
		}
		y, f := m.loadR(o.B, o.Q)
		if f != "" {
			return f
		}
		if f := m.save(o.A, o.P, y); f != "" {
			return f
		}
		return m.save(o.B, o.Q, x)
	case "r.arrNew":
		return m.save(o.A, o.P, VArr(TArr(TR)))
	case "r.arrPush":
		r, f := m.loadR(o.A, o.P)
		if f != "" {
			return f
		}
		arr, f := m.typed(o.B, o.Q, TArr(TR))
		if f != "" {
			return f
		}
		if arr == nil {
			return FNil
		}
		arr.Elems = append(arr.Elems, r)
	case "r.arrPop":
		arr, f := m.typed(o.A, o.P, TArr(TR))
		if f != "" {
			return f
		}
		if arr == nil {
			return FNil
		}
		if o.I < 0 || o.I >= len(arr.Elems) {
			return FIndex
		}
		r := arr.Elems[o.I]
		arr.Elems = append(arr.Elems[:o.I:o.I], arr.Elems[o.I+1:]...)
		pr.obs("ap", uuidCanon(r))
		return m.save(o.B, o.Q, r)
	case "r.arrDestroy":
		arr, f := m.typed(o.A, o.P, TArr(TR))
		if f != "" {
			return f
		}
		if arr == nil {
			pr.obs("ad", "nil")
			return ""
		}
		delete(stg, o.P)
		pr.obs("ad", fmt.Sprintf("Int(%d)", len(arr.Elems)))
		pr.destroyed(arr)
	case "r.dictNew":
		return m.save(o.A, o.P, VDict(TDict(TString, TR)))
	case "r.dictPut":
		r, f := m.loadR(o.A, o.P)
		if f != "" {
			return f
		}
		d, f := m.typed(o.B, o.Q, TDict(TString, TR))
		if f != "" {
			return f
		}
		if d == nil {
			return FNil
		}
		old := d.DictSet(VStr(o.S), r)
		if old == nil {
			pr.obs("dp", "nil")
		} else {
			pr.obs("dp", uuidCanon(old))
			pr.destroyed(old)
		}
	case "r.dictTake":
		d, f := m.typed(o.A, o.P, TDict(TString, TR))
		if f != "" {
			return f
		}
		if d == nil {
			return FNil
		}
		r := d.DictRemove(VStr(o.S))
		if r == nil {
			pr.obs("dt", "nil")
			return ""
		}
		pr.obs("dt", uuidCanon(r))
		return m.save(o.B, o.Q, r)

	case "x.panic":
		return FPanic
	case "x.assert":
		if !(o.I < 0) {
			return FAssert
		}
	case "x.recurse":
		if o.J == 1 {
			return FPanic
		}
		pr.obs("rc", fmt.Sprintf("Int(%d)", o.I))
	case "x.loop":
		acc := 0
		for i := 0; i < o.I; i++ {
			acc += i * 3
		}
		pr.obs("lp", fmt.Sprintf("Int(%d)", acc))

	case "ev.rich":
		n := int64(o.I)
		f := "nil"
		if n%2 == 0 {
			f = fmt.Sprintf("?(Int(%d))", n)
		}
		pr.Events = append(pr.Events, fmt.Sprintf(
			`%sRich(a: Int(%d), b: %q, c: [UInt8(1), UInt8(2), UInt8(%d)], d: {"k": Int(%d)}, e: 0x0000000000000001, f: %s, g: Type<%sR>, h: /storage/p, i: %s, k: UFix64(1.50000000), l: [%s], m: %v, n: Character("x"))`,
			worldPrefix, n, fmt.Sprint(n), n%200, n, f, worldPrefix, VS(n, []int64{n}, nil).Canon(), richS().Canon(), n > 3))

	default:
		if f, ok := m.applyContainers(o, pr); ok {
			return f
		}
		if f, ok := m.applyCopy(o, pr); ok {
			return f
		}
		if f, ok := m.applyAttach(o, pr); ok {
			return f
		}
		if f, ok := m.applyCaps(o, pr); ok {
			return f
		}
		if f, ok := m.applyContracts(o, pr); ok {
			return f
		}
		if f, ok := m.applyHostSvc(o, pr); ok {
			return f
		}
		panic("harness: no model for op " + o.K)
	}
	return ""
}

// ---------------------------------------------------------------------------------------------
// program assembly

const fullAuth = "auth(Storage, Contracts, Keys, Inbox, Capabilities) &Account"

func importsFor(ops []Op) string {
	imp := "import World from 0x1\n"
	for _, o := range ops {
		if s := o.extraImport(); s != "" && !strings.Contains(imp, s) {
			imp += s + "\n"
		}
	}
	return imp
}

func TxSource(ops []Op, naccts int, m *Model) string {
	scratch := m.Clone()
	scratch.Ctr.BeginTx()
	var b strings.Builder
	b.WriteString(importsFor(ops))
	b.WriteString("transaction {\n    prepare(")
	for i := 1; i <= naccts; i++ {
		if i > 1 {
			b.WriteString(", ")
		}
		fmt.Fprintf(&b, "s%d: %s", i, fullAuth)
	}
	b.WriteString(") {\n")
	for k, o := range ops {
		fmt.Fprintf(&b, "        // op %d: %s\n", k, o.K)
		b.WriteString(o.Code(k, scratch))
		scratch.Apply(o, &Pred{})
	}
	b.WriteString("        World.end()\n    }\n}\n")
	return b.String()
}

func ScriptSource(ops []Op, naccts int, m *Model) string {
	scratch := m.Clone()
	scratch.Ctr.BeginTx()
	var b strings.Builder
	b.WriteString(importsFor(ops))
	b.WriteString("access(all) fun main(): Int {\n")
	for i := 1; i <= naccts; i++ {
		fmt.Fprintf(&b, "        let s%d = getAuthAccount<%s>(0x%x)\n", i, fullAuth, i)
	}
	for k, o := range ops {
		fmt.Fprintf(&b, "        // op %d: %s\n", k, o.K)
		b.WriteString(o.Code(k, scratch))
		scratch.Apply(o, &Pred{})
	}
	b.WriteString("        World.end()\n        return 42\n}\n")
	return b.String()
}

// Predict runs the ops on the model. For transactions that are predicted to succeed, and only for those,
// the model state advances; otherwise it is left untouched.
func (m *Model) Predict(ops []Op, isScript bool) (*Pred, *Model) {
	scratch := m.Clone()
	scratch.Ctr.BeginTx()
	pr := &Pred{FailOp: -1}
	if ok, k := scratch.importsResolve(ops); !ok {
		pr.Fail, pr.FailOp = FChecker, k
		return pr, m
	}
	// a program that violates resource linearity is rejected as a whole, before any operation runs
	for k, o := range ops {
		if o.K == "r.lin" {
			pr.Fail, pr.FailOp = FChecker, k
			return pr, m
		}
	}
	for k, o := range ops {
		if f := scratch.Apply(o, pr); f != "" {
			pr.Fail = f
			pr.FailOp = k
			m.NextU = scratch.NextU // placeholders stay unique even if aborted
			return pr, m
		}
	}
	if isScript {
		m.NextU = scratch.NextU
		return pr, m
	}
	return pr, scratch
}

func richS() *Val {
	s := VS(1, nil, nil)
	s.F["o"] = VSome(TOpt(TString), VStr("z"))
	s.F["oa"] = VSome(TOpt(TArr(TInt)), VArr(TArr(TInt), VInt(1)))
	return s
}

// linSnippet: programs that lose, duplicate or use a moved resource on some path. Each must be rejected by the checker; if one is
// accepted, the transaction runs and the resource population changes without a creation or destruction (C02).
const linVariants = 12

func linSnippet(variant, k int) string {
	r := fmt.Sprintf("lr_%d", k)
	eat := fmt.Sprintf("eat_%d", k)
	head := fmt.Sprintf("        let %s <- World.make(%d)\n        let %s = fun (_ x: @World.R): Bool { destroy x; return true }\n        var flag_%d = s1.address == 0x1\n", r, 900+variant, eat, k)
	f := fmt.Sprintf("flag_%d", k)
	var body string
	switch variant % linVariants {
	case 0:
		body = fmt.Sprintf("let ok = %s || %s(<-%s)", f, eat, r)
	case 1:
		body = fmt.Sprintf("let ok = !%s && %s(<-%s)", f, eat, r)
	case 2:
		body = fmt.Sprintf("let o: Bool? = %s ? true : nil\n        let ok = o ?? %s(<-%s)", f, eat, r)
	case 3:
		body = fmt.Sprintf("if %s { destroy %s }", f, r)
	case 4:
		body = fmt.Sprintf("destroy %s\n        destroy %s", r, r)
	case 5:
		body = fmt.Sprintf("var i = 0\n        while i < 1 { destroy %s; i = i + 1 }", r)
	case 6:
		body = fmt.Sprintf("let n = %s.id", r)
	case 7:
		body = fmt.Sprintf("let a <- [<- %s]\n        let b <- a\n        let c <- a\n        destroy b\n        destroy c", r)
	case 8:
		body = fmt.Sprintf("let ok = %s ? %s(<-%s) : false", f, eat, r)
	case 9:
		body = fmt.Sprintf("if %s { let x <- %s; destroy x } else { World.mark(\"else\") }", f, r)
	case 10:
		body = fmt.Sprintf("let arr <- [<- %s]\n        for x in [1, 2] { if x == 1 { destroy arr } }", r)
	default:
		body = fmt.Sprintf("switch %s {\n        case true: destroy %s\n        default: World.mark(\"d\")\n        }", f, r)
	}
	return head + "        " + body + "\n"
}
