package main

// Node: one replica = what a Flow node process holds (DESIGN.md §3.2).

import (
	"crypto/sha256"
	"encoding/hex"
	stderrors "errors"
	"fmt"
	"reflect"
	"runtime/debug"
	"strings"

	"github.com/onflow/cadence"
	"github.com/onflow/cadence/common"
	cerrors "github.com/onflow/cadence/errors"
	"github.com/onflow/cadence/runtime"
	"github.com/onflow/cadence/sema"
)

type NodeConfig struct {
	Name            string `json:"name"`
	Engine          string `json:"engine"` // "interp" | "vm" | "vmpeep"
	Cache           string `json:"cache"`  // "cold" (cleared before every execution) | "warm"
	EnvReuse        bool   `json:"env_reuse"`
	AtreeValidation bool   `json:"atree_validation"`
	StackDepthLimit uint64 `json:"stack_depth_limit,omitempty"`
	DeferredCode    bool   `json:"deferred_code,omitempty"`
	OwnerHandler    bool   `json:"owner_handler,omitempty"`
	RecordGauge     bool   `json:"record_gauge,omitempty"`
	KeepLoaded      bool   `json:"keep_loaded,omitempty"` // the program cache keeps contract programs loaded by executions that failed later
}

func (c NodeConfig) UseVM() bool { return c.Engine == "vm" || c.Engine == "vmpeep" }

type Node struct {
	Cfg  NodeConfig
	H    *Host
	RT   runtime.Runtime
	Env  runtime.Environment
	ScriptEnv runtime.Environment
	Seq  int // executions so far (diagnostics only)
	Restarts int
	lastT *Transcript
	lastStep int
}

func NewNode(cfg NodeConfig, w *World) *Node {
	n := &Node{Cfg: cfg}
	n.H = NewHost(w)
	n.boot()
	return n
}

func (n *Node) rtConfig() runtime.Config {
	return runtime.Config{
		AtreeValidationEnabled:            n.Cfg.AtreeValidation,
		StackDepthLimit:                   n.Cfg.StackDepthLimit,
		ResourceOwnerChangeHandlerEnabled: n.Cfg.OwnerHandler,
	}
}

func (n *Node) newEnv(script bool) runtime.Environment {
	cfg := n.rtConfig()
	if n.Cfg.UseVM() {
		var env runtime.Environment
		if script {
			env = runtime.NewScriptVMEnvironment(cfg)
		} else {
			env = runtime.NewBaseVMEnvironment(cfg)
		}
		if !runtime.VerifSetPeepholeOptimizations(env, n.Cfg.Engine == "vmpeep") {
			panic("harness: VerifSetPeepholeOptimizations refused VM environment")
		}
		return env
	}
	if script {
		return runtime.NewScriptInterpreterEnvironment(cfg)
	}
	return runtime.NewBaseInterpreterEnvironment(cfg)
}

func (n *Node) boot() {
	w := n.H.W
	hook, shared := n.H.Hook, n.H.SharedLoad
	n.H = NewHost(w)
	n.H.Hook, n.H.SharedLoad = hook, shared
	n.H.DeferredCode = n.Cfg.DeferredCode
	n.H.KeepOnAbort = n.Cfg.KeepLoaded
	n.H.RecordGauge = n.Cfg.RecordGauge
	n.RT = runtime.NewRuntime(n.rtConfig())
	n.Env = n.newEnv(false)
	n.ScriptEnv = n.newEnv(true)
}

// Restart: the process dies; only the ledger and code store survive.
func (n *Node) Restart() {
	n.Restarts++
	n.boot()
}

// ---------------------------------------------------------------------------------------------

type ExecReq struct {
	Kind     string           `json:"kind"` // "tx" | "script" | "invoke"
	Source   string           `json:"source,omitempty"`
	Args     []string         `json:"args,omitempty"` // JSON-CDC encoded
	Signers  []uint64         `json:"signers,omitempty"`
	Contract string           `json:"contract,omitempty"` // invoke: "0x1.World"
	Function string           `json:"function,omitempty"`
	Salt     uint64           `json:"salt,omitempty"` // distinguishes locations of otherwise identical programs
	Faults   []FaultSpec      `json:"faults,omitempty"`
	InvokeArgs []cadence.Value `json:"-"`
	InvokeArgTypes []sema.Type `json:"-"`
}

func addr(n uint64) common.Address {
	var a common.Address
	for i := 7; i >= 0; i-- {
		a[i] = byte(n)
		n >>= 8
	}
	return a
}

func (r ExecReq) location() [32]byte {
	h := sha256.New()
	h.Write([]byte(r.Kind))
	h.Write([]byte(r.Source))
	for _, a := range r.Args {
		h.Write([]byte(a))
	}
	fmt.Fprintf(h, "%d", r.Salt)
	var out [32]byte
	copy(out[:], h.Sum(nil))
	return out
}

type Transcript struct {
	Kind       string
	Class      string // ok | user | external | internal | unknown | escaped
	ErrType    string // Go type name of the innermost Cadence error
	ErrChain   []string
	ErrMsg     string
	Err        error
	Escaped    string // non-empty: a panic escaped the runtime API
	Result     string // canonical script / invoke result
	ResultVal  cadence.Value
	Obs        []string // canonical observations (World.Obs events)
	Events     []string // JSON-CDC of all other events, in order
	EventIDs   []string
	EventVals  []cadence.Event
	EventIssues []string
	Logs       []string
	Writes     []Write
	Trace      []Call
	Gauge      []uint64
	GaugeDigest string
	GaugeN     int
	MemN, CompN int
	Fired      []string
	FiredSeq   int
	FiredGauge int
	Committed  bool
	EndSeq     int // global callback index of the END observation (-1 if none)
	CodeUpdates []string // contract code updates / removals buffered by the host at the end of the execution
}

const ObsEventInfix = ".World.O_"

func (n *Node) ctx(loc common.Location) runtime.Context {
	_, script := loc.(common.ScriptLocation)
	if !n.Cfg.EnvReuse {
		if script {
			n.ScriptEnv = n.newEnv(true)
		} else {
			n.Env = n.newEnv(false)
		}
	}
	env := n.Env
	if script {
		env = n.ScriptEnv
	}
	return runtime.Context{
		Interface:        n.H,
		Location:         loc,
		Environment:      env,
		UseVM:            n.Cfg.UseVM(),
		MemoryGauge:      n.H,
		ComputationGauge: n.H,
	}
}

// Exec runs one execution on this node. commitOnSuccess=false turns a transaction into a dry run (its effects are discarded).
func (n *Node) Exec(req ExecReq, commitOnSuccess bool) *Transcript {
	n.Seq++
	if n.Cfg.Cache == "cold" {
		n.H.EvictAll()
	}
	var signers []runtime.Address
	for _, s := range req.Signers {
		signers = append(signers, addr(s))
	}
	h := n.H
	h.Begin(signers, req.Faults)
	t := &Transcript{Kind: req.Kind, FiredSeq: -1, FiredGauge: -1, EndSeq: -1}
	var args [][]byte
	for _, a := range req.Args {
		args = append(args, []byte(a))
	}
	var err error
	var val cadence.Value
	func() {
		defer func() {
			if r := recover(); r != nil {
				t.Escaped = fmt.Sprintf("%v", r)
				if e, ok := r.(error); ok {
					err = e
				} else {
					err = fmt.Errorf("escaped panic: %v", r)
				}
				if strings.Contains(t.Escaped, "harness:") {
					panic(r)
				}
				t.Escaped += "\n" + string(debug.Stack())
			}
		}()
		switch req.Kind {
		case "tx":
			err = n.RT.ExecuteTransaction(runtime.Script{Source: []byte(req.Source), Arguments: args}, n.ctx(common.TransactionLocation(req.location())))
		case "script":
			val, err = n.RT.ExecuteScript(runtime.Script{Source: []byte(req.Source), Arguments: args}, n.ctx(common.ScriptLocation(req.location())))
		case "invoke":
			parts := strings.SplitN(req.Contract, ".", 2)
			var a uint64
			fmt.Sscanf(parts[0], "0x%x", &a)
			val, err = n.RT.InvokeContractFunction(common.AddressLocation{Address: addr(a), Name: parts[1]}, req.Function, req.InvokeArgs, req.InvokeArgTypes, n.ctx(common.TransactionLocation(req.location())))
		default:
			panic("harness: bad exec kind " + req.Kind)
		}
	}()
	t.Err = err
	classify(t, err)
	if val != nil && err == nil {
		t.ResultVal = val
		t.Result = Canon(val)
	}
	for i, e := range h.Events {
		id := e.EventType.ID()
		if strings.Contains(id, ObsEventInfix) {
			t.Obs = append(t.Obs, canonObs(e))
			continue
		}
		if strings.HasSuffix(id, ".World.Mark") {
			continue
		}
		t.Events = append(t.Events, h.EventsJSON[i])
		t.EventIDs = append(t.EventIDs, id)
		t.EventVals = append(t.EventVals, e)
	}
	// locate END marker in the trace
	for i, c := range h.Trace {
		if c.Kind == "EmitEvent" && strings.HasSuffix(c.Arg, ".World.End") {
			t.EndSeq = i
		}
	}
	t.EventIssues = h.EventIssues
	t.Logs = h.Logs
	t.Writes = h.Writes
	t.Trace = h.Trace
	t.Gauge = h.Gauge
	t.GaugeDigest = h.GaugeDigest()
	t.GaugeN, t.MemN, t.CompN = h.GaugeN, h.MemN, h.CompN
	t.Fired = h.Fired
	t.FiredSeq = h.FiredSeq
	t.FiredGauge = h.FiredGauge
	for l, c := range h.txCodes {
		t.CodeUpdates = append(t.CodeUpdates, "update "+l.String()+" "+h64(c))
	}
	for l := range h.txCodeDel {
		t.CodeUpdates = append(t.CodeUpdates, "remove "+l.String())
	}
	sortStrings(t.CodeUpdates)
	switch {
	case req.Kind == "script":
		h.DiscardScript(err != nil)
	case err == nil && commitOnSuccess:
		h.Commit()
		t.Committed = true
	default:
		h.Abort()
	}
	return t
}

func typeName(e error) string {
	t := reflect.TypeOf(e)
	if t == nil {
		return "nil"
	}
	return t.String()
}

func classify(t *Transcript, err error) {
	if err == nil {
		t.Class = "ok"
		return
	}
	t.ErrMsg = firstLine(err.Error())
	// chain of types
	var chain []string
	var innermost error
	for e := err; e != nil; {
		if _, ok := e.(*InjectedError); ok {
			chain = append(chain, "INJECTED")
			break
		}
		chain = append(chain, typeName(e))
		innermost = e
		if pe, ok := e.(cerrors.ParentError); ok {
			if ch := pe.ChildErrors(); len(ch) > 0 {
				chain = append(chain, "child:"+typeName(ch[0]))
			}
		}
		u, ok := e.(interface{ Unwrap() error })
		if !ok {
			break
		}
		e = u.Unwrap()
	}
	t.ErrChain = chain
	t.ErrType = typeName(innermost)
	if pe, ok := innermost.(cerrors.ParentError); ok {
		if ch := pe.ChildErrors(); len(ch) > 0 {
			t.ErrType += "/" + typeName(ch[0])
		}
	}
	_, isExt := cerrors.GetExternalError(err)
	var nonErr cerrors.ExternalNonError
	if stderrors.As(err, &nonErr) {
		isExt = true
	}
	switch {
	case t.Escaped != "":
		t.Class = "escaped"
	case cerrors.IsInternalError(err):
		t.Class = "internal"
	case isExt:
		t.Class = "external"
	case cerrors.IsUserError(err):
		t.Class = "user"
	default:
		t.Class = "unknown"
	}
}

func firstLine(s string) string {
	if i := strings.Index(s, "\n"); i >= 0 {
		s = s[:i]
	}
	if len(s) > 300 {
		s = s[:300]
	}
	return s
}

func (t *Transcript) CarriesInjected() bool {
	if t.Err == nil {
		return false
	}
	if stderrors.Is(t.Err, ErrInjected) {
		return true
	}
	// a string panic of the host is carried as errors.ExternalNonError{Recovered: <the string>} somewhere in the chain; the pretty
	// printed text of the outer error need not repeat it (e.g. when the source excerpt is all that is printed)
	var nonError cerrors.ExternalNonError
	if stderrors.As(t.Err, &nonError) && strings.Contains(fmt.Sprint(nonError.Recovered), InjectedPanicString) {
		return true
	}
	return strings.Contains(t.Err.Error(), InjectedPanicString)
}

// RegionAt names the marked region (World.mark("X-BEGIN") ... World.mark("X-END")) that contains trace index seq, or "".
func (t *Transcript) RegionAt(seq int) string {
	region := ""
	for i, c := range t.Trace {
		if i >= seq {
			break
		}
		if c.Kind == "EmitEvent" {
			if k := strings.Index(c.Arg, ".World.Mark:"); k >= 0 {
				name := strings.Trim(c.Arg[k+len(".World.Mark:"):], "\"")
				if strings.HasSuffix(name, "-BEGIN") {
					region = strings.TrimSuffix(name, "-BEGIN")
				} else if strings.HasSuffix(name, "-END") {
					region = ""
				}
			}
		}
	}
	return region
}

// WritesDigest: ordered register writes.
func (t *Transcript) WritesDigest() string {
	h := sha256.New()
	for _, w := range t.Writes {
		h.Write([]byte(w.Key))
		h.Write([]byte{'='})
		h.Write([]byte(w.Val))
		h.Write([]byte{'\n'})
	}
	return hex.EncodeToString(h.Sum(nil))[:16]
}

func (t *Transcript) TraceDigest(skipLoadInternals bool) string {
	h := sha256.New()
	for _, c := range t.Trace {
		h.Write([]byte(c.String()))
		h.Write([]byte{'\n'})
	}
	return hex.EncodeToString(h.Sum(nil))[:16]
}

// Summary is the engine-independent observable outcome (used for replica agreement across engines).
func (t *Transcript) Summary() string {
	var sb strings.Builder
	fmt.Fprintf(&sb, "class=%s type=%s\n", t.Class, t.ErrType)
	fmt.Fprintf(&sb, "result=%s\n", t.Result)
	for _, o := range t.Obs {
		sb.WriteString("obs " + o + "\n")
	}
	for _, e := range t.Events {
		sb.WriteString("event " + e + "\n")
	}
	for _, l := range t.Logs {
		sb.WriteString("log " + l + "\n")
	}
	return sb.String()
}
