package main

// Attachment family (C49).

import (
	"fmt"
	"sort"
	"strings"
)

func (o Op) codeAttach(k int) (string, bool) {
	n := func(s string) string { return fmt.Sprintf("%s_%d", s, k) }
	st := sv(o.A) + ".storage"
	var b strings.Builder
	w := func(f string, a ...any) { fmt.Fprintf(&b, "        "+f+"\n", a...) }
	switch o.K {
	case "at.attach":
		w(`let %s <- %s.load<@World.R>(from: %s)!`, n("r"), st, sp(o.P))
		w(`let %s <- attach World.%s(%d) to <-%s`, n("r2"), o.S, o.I, n("r"))
		w(`%s`, ob("att", TBool, false, fmt.Sprintf("%s[World.%s] != nil", n("r2"), o.S)))
		w(`%s.save(<-%s, to: %s)`, st, n("r2"), sp(o.P))
	case "at.remove":
		w(`let %s <- %s.load<@World.R>(from: %s)!`, n("r"), st, sp(o.P))
		w(`remove World.%s from %s`, o.S, n("r"))
		w(`%s`, ob("rem", TBool, false, fmt.Sprintf("%s[World.%s] == nil", n("r"), o.S)))
		w(`%s.save(<-%s, to: %s)`, st, n("r"), sp(o.P))
	case "at.read":
		w(`let %s = %s.borrow<&World.R>(from: %s)!`, n("ref"), st, sp(o.P))
		w(`let %s = %s%s`, n("t"), n("ref"), o.kidPath())
		w(`%s`, ob("atA", TArr(TOpt(TInt)), false, fmt.Sprintf("[%s[World.A]?.baseId(), %s[World.A]?.selfN()]", n("t"), n("t"))))
		w(`%s`, ob("atAu", TBool, false, fmt.Sprintf("%s[World.A]?.baseUuid() == %s.uuid", n("t"), n("t"))))
		w(`%s`, ob("atB", TInt, true, n("t")+"[World.B]?.sum()"))
	case "at.set":
		w(`let %s = %s.borrow<&World.R>(from: %s)!`, n("ref"), st, sp(o.P))
		w(`%s%s[World.A]!.setN(%d)`, n("ref"), o.kidPath(), o.I)
	case "at.forEach":
		w(`let %s = %s.borrow<&World.R>(from: %s)!`, n("ref"), st, sp(o.P))
		w(`var %s: [String] = []`, n("acc"))
		w(`%s%s.forEachAttachment(fun (a: &AnyResourceAttachment) { %s.append(a.getType().identifier) })`, n("ref"), o.kidPath(), n("acc"))
		w(`%s`, ob("~fa", TArr(TString), false, n("acc")))
	case "at.stackMove":
		// access the attachments, move the base on the stack (same storage address), then iterate / destroy
		w(`let %s <- %s.load<@World.R>(from: %s)!`, n("r"), st, sp(o.P))
		w(`%s`, ob("smA", TInt, true, n("r")+"[World.A]?.baseId()"))
		w(`%s`, ob("smB", TInt, true, n("r")+"[World.B]?.sum()"))
		w(`let %s <- %s`, n("r2"), n("r"))
		w(`var %s: [Int] = []`, n("acc"))
		w(`%s.forEachAttachment(fun (a: &AnyResourceAttachment) {`, n("r2"))
		w(`    if let aa = a as? &World.A { %s.append(aa.baseId()) }`, n("acc"))
		w(`    if let bb = a as? &World.B { %s.append(bb.sum()) }`, n("acc"))
		w(`})`)
		w(`%s`, ob("~smI", TArr(TInt), false, n("acc")))
		if o.I == 1 {
			w(`destroy %s`, n("r2"))
		} else {
			w(`%s.save(<-%s, to: %s)`, st, n("r2"), sp(o.P))
		}
	case "at.sattach":
		w(`let %s = %s.load<World.S>(from: %s)!`, n("s"), st, sp(o.P))
		w(`let %s = attach World.SA(%d) to %s`, n("s2"), o.I, n("s"))
		w(`%s`, ob("sat", TArr(TOpt(TInt)), false, fmt.Sprintf("[%s[World.SA]?.baseA(), %s[World.SA]?.n]", n("s2"), n("s2"))))
		w(`%s.save(%s, to: %s)`, st, n("s2"), sp(o.P))
	case "at.sremove":
		w(`var %s = %s.load<World.S>(from: %s)!`, n("s"), st, sp(o.P))
		w(`remove World.SA from %s`, n("s"))
		w(`%s`, ob("srem", TBool, false, n("s")+"[World.SA] == nil"))
		w(`%s.save(%s, to: %s)`, st, n("s"), sp(o.P))
	default:
		return "", false
	}
	return b.String(), true
}

func (m *Model) applyAttach(o Op, pr *Pred) (string, bool) {
	switch o.K {
	case "at.attach":
		r, f := m.loadR(o.A, o.P)
		if f != "" {
			return f, true
		}
		if r.Atts[o.S] != nil {
			return FDupAttach, true
		}
		if r.Atts == nil {
			r.Atts = map[string]*Val{}
		}
		fn := "n"
		if o.S == "B" {
			fn = "m"
		}
		r.Atts[o.S] = &Val{T: &Ty{K: "Att"}, F: map[string]*Val{fn: VInt(int64(o.I))}}
		pr.obs("att", "true")
		return m.save(o.A, o.P, r), true
	case "at.remove":
		r, f := m.loadR(o.A, o.P)
		if f != "" {
			return f, true
		}
		if a := r.Atts[o.S]; a != nil {
			switch o.S {
			case "A":
				pr.Events = append(pr.Events, fmt.Sprintf("%sA.ResourceDestroyed(n: %s, baseId: %s)", worldPrefix, a.F["n"].Canon(), r.F["id"].Canon()))
			case "B":
				pr.Events = append(pr.Events, fmt.Sprintf("%sB.ResourceDestroyed(m: %s)", worldPrefix, a.F["m"].Canon()))
			}
			delete(r.Atts, o.S)
		}
		pr.obs("rem", "true")
		return m.save(o.A, o.P, r), true
	case "at.stackMove":
		r, f := m.loadR(o.A, o.P)
		if f != "" {
			return f, true
		}
		var acc []string
		if a := r.Atts["A"]; a != nil {
			pr.obs("smA", r.F["id"].Canon())
			acc = append(acc, r.F["id"].Canon())
		} else {
			pr.obs("smA", "nil")
		}
		if b := r.Atts["B"]; b != nil {
			sum := fmt.Sprintf("Int(%d)", b.F["m"].I+r.F["n"].I)
			pr.obs("smB", sum)
			acc = append(acc, sum)
		} else {
			pr.obs("smB", "nil")
		}
		pr.obs("~smI", "["+strings.Join(acc, ", ")+"]")
		if o.I == 1 {
			pr.destroyed(r)
			return "", true
		}
		return m.save(o.A, o.P, r), true
	case "at.read", "at.set", "at.forEach":
		r, f := m.borrowR(o.A, o.P)
		if f != "" {
			return f, true
		}
		r, f = descend(r, o.Ix)
		if f != "" {
			return f, true
		}
		switch o.K {
		case "at.read":
			if a := r.Atts["A"]; a != nil {
				pr.obs("atA", fmt.Sprintf("[?(%s), ?(%s)]", r.F["id"].Canon(), a.F["n"].Canon()))
				pr.obs("atAu", "true")
			} else {
				pr.obs("atA", "[nil, nil]")
				pr.obs("atAu", "false")
			}
			if a := r.Atts["B"]; a != nil {
				pr.obs("atB", fmt.Sprintf("Int(%d)", a.F["m"].I+r.F["n"].I))
			} else {
				pr.obs("atB", "nil")
			}
		case "at.set":
			a := r.Atts["A"]
			if a == nil {
				return FNil, true
			}
			a.F["n"] = VInt(int64(o.I))
		case "at.forEach":
			var ids []string
			for _, an := range sortedKeys(r.Atts) {
				ids = append(ids, fmt.Sprintf("%q", worldPrefix+an))
			}
			sort.Strings(ids)
			pr.obs("~fa", "["+strings.Join(ids, ", ")+"]")
		}
		return "", true
	case "at.sattach", "at.sremove":
		s, f := m.typed(o.A, o.P, TS)
		if f != "" {
			return f, true
		}
		if s == nil {
			return FNil, true
		}
		delete(m.Accts[o.A].Storage, o.P)
		if o.K == "at.sattach" {
			if s.Atts["SA"] != nil {
				return FDupAttach, true
			}
			if s.Atts == nil {
				s.Atts = map[string]*Val{}
			}
			s.Atts["SA"] = &Val{T: &Ty{K: "Att"}, F: map[string]*Val{"n": VInt(int64(o.I))}}
			pr.obs("sat", fmt.Sprintf("[?(%s), ?(Int(%d))]", s.F["a"].Canon(), o.I))
		} else {
			delete(s.Atts, "SA")
			pr.obs("srem", "true")
		}
		return m.save(o.A, o.P, s), true
	}
	return "", false
}
