package main

// Capability family (C25): controllers, capability values (issued and derived), publishing and the inbox,
// against the controller model stated in the property.

import (
	"fmt"
	"sort"
	"strings"
)

type Ctl struct {
	N    int    // nonce of the issuing op; also the key of the issued capability value in World.caps
	Acct int
	Auth string // "", "X", "Y", "XY"
	T    *Ty
	Path string
	Tag  string
	Live bool
}

// CapVal is a capability value: a reference to a controller plus its own borrow type (which differs from the
// controller's for capabilities derived with capabilities.get<T>).
type CapVal struct {
	Ctl  int // controller nonce; -1: the invalid capability (id 0)
	Acct int
	Auth string
	T    *Ty
}

type inboxEntry struct {
	Recipient int
	Cap       CapVal
}

type CapModel struct {
	Ctls  map[int]*Ctl
	Vals  map[int]CapVal                // World.caps
	Pub   map[int]map[string]CapVal     // account -> public path -> capability
	Inbox map[int]map[string]inboxEntry // provider -> name -> entry
}

func NewCapModel() *CapModel {
	return &CapModel{Ctls: map[int]*Ctl{}, Vals: map[int]CapVal{}, Pub: map[int]map[string]CapVal{}, Inbox: map[int]map[string]inboxEntry{}}
}

func (c *CapModel) Clone() *CapModel {
	n := NewCapModel()
	for k, v := range c.Ctls {
		vc := *v
		n.Ctls[k] = &vc
	}
	for k, v := range c.Vals {
		n.Vals[k] = v
	}
	for a, m := range c.Pub {
		n.Pub[a] = map[string]CapVal{}
		for k, v := range m {
			n.Pub[a][k] = v
		}
	}
	for a, m := range c.Inbox {
		n.Inbox[a] = map[string]inboxEntry{}
		for k, v := range m {
			n.Inbox[a][k] = v
		}
	}
	return n
}

func (c *CapModel) Hash() string {
	var parts []string
	for k, v := range c.Ctls {
		parts = append(parts, fmt.Sprintf("c%d:%d/%s/%s/%s/%v", k, v.Acct, v.Auth, v.T.ID(), v.Path, v.Live))
	}
	for a, m := range c.Pub {
		for p, v := range m {
			parts = append(parts, fmt.Sprintf("p%d/%s=%d", a, p, v.Ctl))
		}
	}
	for a, m := range c.Inbox {
		for nme, e := range m {
			parts = append(parts, fmt.Sprintf("i%d/%s=%d>%d", a, nme, e.Cap.Ctl, e.Recipient))
		}
	}
	sort.Strings(parts)
	return strings.Join(parts, ",")
}

var capTypes = []*Ty{TR, TR, TRI, TAnyR, TV, TS, TSI, TAnyS, TInt}
var capAuths = []string{"", "", "X", "Y", "XY"}

func refTy(auth string, t *Ty) string {
	switch auth {
	case "X":
		return "auth(World.X) &" + t.Src()
	case "Y":
		return "auth(World.Y) &" + t.Src()
	case "XY":
		return "auth(World.X, World.Y) &" + t.Src()
	}
	return "&" + t.Src()
}

func authSubset(a, b string) bool {
	for _, e := range a {
		if !strings.ContainsRune(b, e) {
			return false
		}
	}
	return true
}

func related(t, u *Ty) bool { return SubType(t, u) || SubType(u, t) }

// works: the borrow rule of the property.
func (m *Model) capWorks(cv CapVal, auth string, t *Ty) (*Val, bool) {
	if cv.Ctl < 0 {
		return nil, false
	}
	ctl := m.Caps.Ctls[cv.Ctl]
	if ctl == nil || !ctl.Live {
		return nil, false
	}
	if !authSubset(auth, ctl.Auth) || !authSubset(auth, cv.Auth) {
		return nil, false
	}
	if !related(t, ctl.T) || !related(t, cv.T) {
		return nil, false
	}
	stored := m.Accts[ctl.Acct].Storage[ctl.Path]
	if stored == nil || !SubType(stored.T, t) {
		return nil, false
	}
	return stored, true
}

// getValid: when capabilities.get<T> hands out a usable (id != 0) capability: published, controller live, T compatible.
func (m *Model) getValid(cv CapVal, auth string, t *Ty) bool {
	if cv.Ctl < 0 {
		return false
	}
	ctl := m.Caps.Ctls[cv.Ctl]
	if ctl == nil || !ctl.Live {
		return false
	}
	return authSubset(auth, ctl.Auth) && authSubset(auth, cv.Auth) && related(t, ctl.T) && related(t, cv.T)
}

func capID(n int) string { return fmt.Sprintf("UInt64(‹c%d›)", n) }

func pp(p string) string { return "/public/" + p }

func (o Op) codeCaps(k int) (string, bool) {
	n := func(s string) string { return fmt.Sprintf("%s_%d", s, k) }
	acct := sv(o.A)
	var b strings.Builder
	w := func(f string, a ...any) { fmt.Fprintf(&b, "        "+f+"\n", a...) }
	findCtl := func() {
		// the controller of capability value o.N, looked up by its id in the issuing account
		w(`let %s = %s.capabilities.storage.getController(byCapabilityID: World.getCap(%d)!.id)`, n("ctl"), acct, o.N)
	}
	switch o.K {
	case "cap.issue":
		w(`let %s = %s.capabilities.storage.issue<%s>(%s)`, n("c"), acct, refTy(o.S, o.T), sp(o.P))
		w(`World.putCap(%d, %s)`, o.N, n("c"))
		w(`%s.capabilities.storage.getController(byCapabilityID: %s.id)!.setTag("t%d")`, acct, n("c"), o.N)
		w(`%s`, ob("iss", TU64, false, n("c")+".id"))
	case "cap.bulk":
		// many controllers in one account: the controller storage map leaves the inline representation
		w(`var %s: [UInt64] = []`, n("ids"))
		w(`var %s = 0`, n("i"))
		w(`while %s < %d {`, n("i"), o.I)
		w(`    let c = %s.capabilities.storage.issue<%s>(%s)`, acct, refTy(o.S, o.T), sp(o.P))
		w(`    if %s == 0 { World.putCap(%d, c) }`, n("i"), o.N)
		w(`    %s.append(c.id); %s = %s + 1`, n("ids"), n("i"), n("i"))
		w(`}`)
		w(`%s`, ob("blk", TArr(TU64), false, n("ids")))
	case "cap.check":
		w(`%s`, ob("chk", TBool, false, fmt.Sprintf("World.getCap(%d)!.check<%s>()", o.N, refTy(o.S, o.T))))
	case "cap.borrow":
		w(`let %s = World.getCap(%d)!.borrow<%s>()`, n("r"), o.N, refTy(o.S, o.T))
		pt, pe := o.T.project(n("r") + "!")
		w(`if %s == nil { %s } else { %s }`, n("r"), ob("bor", pt, true, "nil"), ob("bor", pt, false, pe))
	case "cap.delete":
		findCtl()
		w(`if let c = %s { c.delete(); %s } else { %s }`, n("ctl"), ob("del", TBool, false, "true"), ob("del", TBool, false, "false"))
	case "cap.retarget":
		findCtl()
		w(`if let c = %s { c.retarget(%s); %s } else { %s }`, n("ctl"), sp(o.Q), ob("ret", TBool, false, "true"), ob("ret", TBool, false, "false"))
	case "cap.tag":
		findCtl()
		w(`if let c = %s { c.setTag(%q); %s } else { %s }`, n("ctl"), o.S, ob("tag", TBool, false, "true"), ob("tag", TBool, false, "false"))
	case "cap.info":
		findCtl()
		w(`if let c = %s { %s } else { %s }`, n("ctl"), ob("inf", TArr(TString), false, "[c.tag, c.target().toString()]"), ob("inf", TArr(TString), true, "nil"))
	case "cap.ctls":
		w(`var %s: [UInt64] = []`, n("ids"))
		w(`for c in %s.capabilities.storage.getControllers(forPath: %s) { %s.append(c.capabilityID) }`, acct, sp(o.P), n("ids"))
		w(`%s`, ob("~ctl", TArr(TU64), false, n("ids")))
	case "cap.forEach":
		w(`var %s: [UInt64] = []`, n("ids"))
		w(`%s.capabilities.storage.forEachController(forPath: %s, fun (c: &StorageCapabilityController): Bool { %s.append(c.capabilityID); return true })`, acct, sp(o.P), n("ids"))
		w(`%s`, ob("~fec", TArr(TU64), false, n("ids")))
	case "cap.publish":
		w(`%s.capabilities.publish(World.getCap(%d)!, at: %s)`, acct, o.N, pp(o.Q))
	case "cap.unpublish":
		w(`%s`, ob("unp", TBool, false, fmt.Sprintf("%s.capabilities.unpublish(%s) != nil", acct, pp(o.Q))))
	case "cap.exists":
		w(`%s`, ob("exi", TBool, false, fmt.Sprintf("getAccount(0x%x).capabilities.exists(%s)", o.A, pp(o.Q))))
	case "cap.get":
		w(`%s`, ob("get", TBool, false, fmt.Sprintf("getAccount(0x%x).capabilities.get<%s>(%s).check()", o.A, refTy(o.S, o.T), pp(o.Q))))
	case "cap.pborrow":
		w(`let %s = getAccount(0x%x).capabilities.borrow<%s>(%s)`, n("r"), o.A, refTy(o.S, o.T), pp(o.Q))
		pt, pe := o.T.project(n("r") + "!")
		w(`if %s == nil { %s } else { %s }`, n("r"), ob("pbo", pt, true, "nil"), ob("pbo", pt, false, pe))
	case "cap.derive":
		w(`let %s = getAccount(0x%x).capabilities.get<%s>(%s)`, n("d"), o.A, refTy(o.S, o.T), pp(o.Q))
		w(`World.putCap(%d, %s)`, o.N, n("d"))
		w(`%s`, ob("der", TBool, false, n("d")+".id != 0"))
	case "cap.ipub":
		w(`%s.inbox.publish(World.getCap(%d)!, name: %q, recipient: 0x%x)`, acct, o.N, o.S, o.B)
	case "cap.iunpub":
		w(`%s`, ob("iun", TBool, false, fmt.Sprintf("%s.inbox.unpublish<%s>(%q) != nil", acct, refTy(o.M, o.T), o.S)))
	case "cap.iclaim":
		w(`let %s = %s.inbox.claim<%s>(%q, provider: 0x%x)`, n("cl"), sv(o.B), refTy(o.M, o.T), o.S, o.A)
		w(`if let c = %s { World.putCap(%d, c); %s } else { %s }`, n("cl"), o.N, ob("icl", TBool, false, "c.check()"), ob("icl", TBool, true, "nil"))
	default:
		return "", false
	}
	return b.String(), true
}

const (
	FCapAddr = "capabilityAddress"
)

func (m *Model) applyCaps(o Op, pr *Pred) (string, bool) {
	c := m.Caps
	ctlOf := func() *Ctl {
		cv, ok := c.Vals[o.N]
		if !ok || cv.Ctl < 0 {
			return nil
		}
		ctl := c.Ctls[cv.Ctl]
		if ctl == nil || !ctl.Live || ctl.Acct != o.A {
			return nil // getController is asked in account o.A
		}
		return ctl
	}
	project := func(tag string, t *Ty, v *Val) {
		if v == nil {
			pr.obs(tag, "nil")
		} else {
			pr.obs(tag, t.projectModel(v))
		}
	}
	switch o.K {
	case "cap.issue":
		c.Ctls[o.N] = &Ctl{N: o.N, Acct: o.A, Auth: o.S, T: o.T, Path: o.P, Tag: fmt.Sprintf("t%d", o.N), Live: true}
		c.Vals[o.N] = CapVal{Ctl: o.N, Acct: o.A, Auth: o.S, T: o.T}
		pr.obs("iss", capID(o.N))
	case "cap.bulk":
		var ids []string
		for i := 0; i < o.I; i++ {
			n := o.N + i
			c.Ctls[n] = &Ctl{N: n, Acct: o.A, Auth: o.S, T: o.T, Path: o.P, Live: true}
			ids = append(ids, capID(n))
		}
		c.Vals[o.N] = CapVal{Ctl: o.N, Acct: o.A, Auth: o.S, T: o.T}
		pr.obs("blk", "["+strings.Join(ids, ", ")+"]")
	case "cap.check":
		cv, ok := c.Vals[o.N]
		if !ok {
			return FNil, true
		}
		_, works := m.capWorks(cv, o.S, o.T)
		pr.obs("chk", fmt.Sprint(works))
	case "cap.borrow":
		cv, ok := c.Vals[o.N]
		if !ok {
			return FNil, true
		}
		v, _ := m.capWorks(cv, o.S, o.T)
		project("bor", o.T, v)
	case "cap.delete", "cap.retarget", "cap.tag", "cap.info":
		if _, ok := c.Vals[o.N]; !ok {
			return FNil, true
		}
		ctl := ctlOf()
		tag := map[string]string{"cap.delete": "del", "cap.retarget": "ret", "cap.tag": "tag", "cap.info": "inf"}[o.K]
		if ctl == nil {
			if o.K == "cap.info" {
				pr.obs(tag, "nil")
			} else {
				pr.obs(tag, "false")
			}
			return "", true
		}
		switch o.K {
		case "cap.delete":
			ctl.Live = false
			pr.obs(tag, "true")
		case "cap.retarget":
			ctl.Path = o.Q
			pr.obs(tag, "true")
		case "cap.tag":
			ctl.Tag = o.S
			pr.obs(tag, "true")
		case "cap.info":
			pr.obs(tag, fmt.Sprintf("[%q, %q]", ctl.Tag, sp(ctl.Path)))
		}
	case "cap.ctls", "cap.forEach":
		var ids []string
		var ns []int
		for n, ctl := range c.Ctls {
			if ctl.Live && ctl.Acct == o.A && ctl.Path == o.P {
				ns = append(ns, n)
			}
		}
		sort.Ints(ns)
		for _, n := range ns {
			ids = append(ids, capID(n))
		}
		tag := "~ctl"
		if o.K == "cap.forEach" {
			tag = "~fec"
		}
		pr.obs(tag, "["+strings.Join(ids, ", ")+"]")
	case "cap.publish":
		cv, ok := c.Vals[o.N]
		if !ok {
			return FNil, true
		}
		if cv.Acct != o.A {
			return FCapAddr, true
		}
		if c.Pub[o.A] == nil {
			c.Pub[o.A] = map[string]CapVal{}
		}
		if _, occupied := c.Pub[o.A][o.Q]; occupied {
			return FOverwrite, true
		}
		c.Pub[o.A][o.Q] = cv
	case "cap.unpublish":
		_, ok := c.Pub[o.A][o.Q]
		pr.obs("unp", fmt.Sprint(ok))
		if ok {
			delete(c.Pub[o.A], o.Q)
		}
	case "cap.exists":
		_, ok := c.Pub[o.A][o.Q]
		pr.obs("exi", fmt.Sprint(ok))
	case "cap.get":
		cv, ok := c.Pub[o.A][o.Q]
		works := false
		if ok {
			_, works = m.capWorks(cv, o.S, o.T)
		}
		pr.obs("get", fmt.Sprint(works))
	case "cap.pborrow":
		cv, ok := c.Pub[o.A][o.Q]
		var v *Val
		if ok {
			v, _ = m.capWorks(cv, o.S, o.T)
		}
		project("pbo", o.T, v)
	case "cap.derive":
		cv, ok := c.Pub[o.A][o.Q]
		if ok && m.getValid(cv, o.S, o.T) {
			c.Vals[o.N] = CapVal{Ctl: cv.Ctl, Acct: cv.Acct, Auth: o.S, T: o.T}
			pr.obs("der", "true")
		} else {
			// the invalid capability (id 0) still carries the address it was asked from
			c.Vals[o.N] = CapVal{Ctl: -1, Acct: o.A, Auth: o.S, T: o.T}
			pr.obs("der", "false")
		}
	case "cap.ipub":
		cv, ok := c.Vals[o.N]
		if !ok {
			return FNil, true
		}
		if c.Inbox[o.A] == nil {
			c.Inbox[o.A] = map[string]inboxEntry{}
		}
		c.Inbox[o.A][o.S] = inboxEntry{Recipient: o.B, Cap: cv}
	case "cap.iunpub":
		e, ok := c.Inbox[o.A][o.S]
		if !ok {
			pr.obs("iun", "false")
			return "", true
		}
		if !capTypeMatches(e.Cap, o.M, o.T) {
			return FTypeMis, true
		}
		delete(c.Inbox[o.A], o.S)
		pr.obs("iun", "true")
	case "cap.iclaim":
		e, ok := c.Inbox[o.A][o.S]
		if !ok || e.Recipient != o.B {
			pr.obs("icl", "nil")
			return "", true
		}
		if !capTypeMatches(e.Cap, o.M, o.T) {
			return FTypeMis, true
		}
		delete(c.Inbox[o.A], o.S)
		c.Vals[o.N] = e.Cap
		_, works := m.capWorks(e.Cap, e.Cap.Auth, e.Cap.T)
		pr.obs("icl", fmt.Sprint(works))
	default:
		return "", false
	}
	return "", true
}

// capTypeMatches: inbox claim / unpublish with a type argument equal to the capability's own borrow type.
// (The generator only produces equal or unrelated type arguments, see capOp.)
func capTypeMatches(cv CapVal, auth string, t *Ty) bool {
	if cv.Ctl < 0 {
		return false
	}
	return cv.Auth == auth && cv.T.Equal(t)
}

var inboxNames = []string{"gift", "key", "x"}

func (g *Gen) capOp() Op {
	c := g.M.Caps
	var vals []int
	for n := range c.Vals {
		vals = append(vals, n)
	}
	sort.Ints(vals)
	pick := func() int {
		if len(vals) == 0 {
			return 0
		}
		return vals[g.R.Intn(len(vals))]
	}
	pubPath := func() string { return fmt.Sprintf("q%d", g.R.Intn(4)) }
	typ := func(base *Ty, baseAuth string) (*Ty, string) {
		// mostly the base type / a related one, sometimes anything
		r := g.R.Float()
		switch {
		case base != nil && r < 0.45:
			return base, baseAuth
		case base != nil && r < 0.6:
			return base, capAuths[g.R.Intn(len(capAuths))]
		}
		return capTypes[g.R.Intn(len(capTypes))], capAuths[g.R.Intn(len(capAuths))]
	}
	choice := g.R.Intn(22)
	if len(vals) < 2 && g.R.Chance(0.7) {
		choice = 0
	}
	g.nonce++
	if g.R.Chance(0.06) {
		// recipe: a capability derived under a different type than its controller's, whose target value is then replaced
		a, p := g.free()
		q := pubPath()
		if _, occupied := c.Pub[a][q]; !occupied {
			res := g.R.Chance(0.6)
			n1, n2 := g.nonce, g.nonce+1
			g.nonce += 2
			var first Op
			var ctlT, derT, newT *Ty
			if res {
				first = Op{K: "r.make", A: a, P: p, I: g.R.Intn(50)}
				ctlT, derT, newT = TR, []*Ty{TAnyR, TRI}[g.R.Intn(2)], TV
			} else {
				first = Op{K: "st.save", A: a, P: p, V: g.valOf(TS, 2)}
				ctlT, derT, newT = TS, []*Ty{TAnyS, TSI}[g.R.Intn(2)], TInt
			}
			g.queue = append(g.queue,
				Op{K: "cap.issue", A: a, P: p, T: ctlT, S: "", N: n1},
				Op{K: "cap.publish", A: a, N: n1, Q: q},
				Op{K: "cap.derive", A: a, Q: q, T: derT, S: "", N: n2},
			)
			if res {
				g.queue = append(g.queue, Op{K: "r.destroy", A: a, P: p}, Op{K: "r.makeV", A: a, P: p, I: 7})
			} else {
				g.queue = append(g.queue, Op{K: "st.load", A: a, P: p, T: TS}, Op{K: "st.save", A: a, P: p, V: VInt(7)})
			}
			g.queue = append(g.queue,
				Op{K: "cap.check", N: n2, T: newT, S: ""},
				Op{K: "cap.borrow", N: n2, T: newT, S: ""},
				Op{K: "cap.check", N: n1, T: newT, S: ""},
				Op{K: "cap.check", N: n2, T: derT, S: ""},
			)
			if g.R.Chance(0.5) {
				q2 := pubPath()
				if _, occ := c.Pub[a][q2]; !occ && q2 != q {
					g.queue = append(g.queue, Op{K: "cap.publish", A: a, N: n2, Q: q2}, Op{K: "cap.pborrow", A: a, Q: q2, T: newT, S: ""}, Op{K: "cap.get", A: a, Q: q2, T: newT, S: ""})
				}
			}
			return first
		}
	}
	if g.R.Chance(g.Cfg.BigRate * 0.25) {
		a, p := g.target(nil)
		cnt := 120 + g.R.Intn(200)
		o := Op{K: "cap.bulk", A: a, P: p, T: TR, S: "", I: cnt, N: g.nonce}
		g.nonce += cnt
		return o
	}
	switch choice {
	case 0, 1, 2:
		a, p := g.target(nil)
		var t *Ty
		if v := g.M.Accts[a].Storage[p]; v != nil && g.R.Chance(0.8) {
			t = v.T
			if !t.IsResource() && t.K != "S" && t.K != "Int" {
				t = TAnyS
			}
			if t.IsResource() && t.K != "R" && t.K != "V" {
				t = TAnyR
			}
			if g.R.Chance(0.3) {
				if t.K == "R" {
					t = []*Ty{TRI, TAnyR}[g.R.Intn(2)]
				} else if t.K == "S" {
					t = []*Ty{TSI, TAnyS}[g.R.Intn(2)]
				}
			}
		} else {
			t = capTypes[g.R.Intn(len(capTypes))]
		}
		return Op{K: "cap.issue", A: a, P: p, T: t, S: capAuths[g.R.Intn(len(capAuths))], N: g.nonce}
	case 3, 4, 5, 6:
		n := pick()
		cv := c.Vals[n]
		t, au := typ(cv.T, cv.Auth)
		if ctl := c.Ctls[cv.Ctl]; ctl != nil && !ctl.T.Equal(cv.T) && g.R.Chance(0.5) {
			// a derived capability: ask for a type compatible with the capability's type but not with its controller's
			switch ctl.T.K {
			case "R":
				t, au = TV, ""
			case "V":
				t, au = TR, ""
			case "S":
				t, au = TInt, ""
			case "Int":
				t, au = TS, ""
			}
		}
		if choice <= 4 {
			return Op{K: "cap.check", N: n, T: t, S: au}
		}
		return Op{K: "cap.borrow", N: n, T: t, S: au}
	case 7:
		n := pick()
		return Op{K: "cap.delete", A: max1(c.Vals[n].Acct), N: n}
	case 8:
		n := pick()
		a := c.Vals[n].Acct
		if a == 0 {
			a = 1
		}
		_, q := g.target(nil)
		return Op{K: "cap.retarget", A: a, N: n, Q: q}
	case 9:
		n := pick()
		return Op{K: "cap.tag", A: max1(c.Vals[n].Acct), N: n, S: fmt.Sprintf("tag%d", g.nonce)}
	case 10:
		n := pick()
		return Op{K: "cap.info", A: max1(c.Vals[n].Acct), N: n}
	case 11, 12:
		a, p := g.target(nil)
		if n := pick(); n > 0 && c.Vals[n].Ctl >= 0 && g.R.Chance(0.7) {
			ctl := c.Ctls[c.Vals[n].Ctl]
			a, p = ctl.Acct, ctl.Path
		}
		return Op{K: []string{"cap.ctls", "cap.forEach"}[g.R.Intn(2)], A: a, P: p}
	case 13, 14:
		n := pick()
		a := max1(c.Vals[n].Acct)
		if g.R.Chance(0.08) {
			a = g.acct()
		}
		return Op{K: "cap.publish", A: a, N: n, Q: pubPath(), Edge: true}
	case 15:
		return Op{K: "cap.unpublish", A: g.acct(), Q: pubPath()}
	case 16:
		if g.R.Chance(0.5) {
			return Op{K: "cap.exists", A: g.acct(), Q: pubPath()}
		}
		// replace the value stored at a controller's target path by a value of another type
		for _, n := range vals {
			cv := c.Vals[n]
			ctl := c.Ctls[cv.Ctl]
			if ctl == nil || !ctl.Live || !g.R.Chance(0.5) {
				continue
			}
			stored := g.M.Accts[ctl.Acct].Storage[ctl.Path]
			switch {
			case stored == nil:
				continue
			case stored.T.K == "R":
				g.queue = append(g.queue, Op{K: "r.makeV", A: ctl.Acct, P: ctl.Path, I: g.R.Intn(50)})
				return Op{K: "r.destroy", A: ctl.Acct, P: ctl.Path}
			case stored.T.K == "V":
				g.queue = append(g.queue, Op{K: "r.make", A: ctl.Acct, P: ctl.Path, I: g.R.Intn(50)})
				return Op{K: "st.loadR", A: ctl.Acct, P: ctl.Path, T: TV}
			case stored.T.K == "S":
				g.queue = append(g.queue, Op{K: "st.save", A: ctl.Acct, P: ctl.Path, V: VInt(int64(g.R.Intn(50)))})
				return Op{K: "st.load", A: ctl.Acct, P: ctl.Path, T: TS}
			case stored.T.K == "Int":
				g.queue = append(g.queue, Op{K: "st.save", A: ctl.Acct, P: ctl.Path, V: g.valOf(TS, 2)})
				return Op{K: "st.load", A: ctl.Acct, P: ctl.Path, T: TInt}
			}
		}
		return Op{K: "cap.exists", A: g.acct(), Q: pubPath()}
	case 17, 18:
		a, q := g.acct(), pubPath()
		var base *Ty
		var bau string
		for aa, mm := range c.Pub {
			for qq, cv := range mm {
				if g.R.Chance(0.5) {
					a, q, base, bau = aa, qq, cv.T, cv.Auth
				}
			}
		}
		t, au := typ(base, bau)
		return Op{K: []string{"cap.get", "cap.pborrow"}[g.R.Intn(2)], A: a, Q: q, T: t, S: au}
	case 19:
		a, q := g.acct(), pubPath()
		var base *Ty
		var bau string
		for aa, mm := range c.Pub {
			for qq, cv := range mm {
				a, q, base, bau = aa, qq, cv.T, cv.Auth
			}
		}
		t, au := typ(base, bau)
		if base != nil && g.R.Chance(0.6) {
			// a strict supertype or subtype of the published type: the derived capability's type differs from its controller's
			switch base.K {
			case "R":
				t = []*Ty{TRI, TAnyR}[g.R.Intn(2)]
			case "RI", "AnyResource":
				t = []*Ty{TR, TAnyR, TV}[g.R.Intn(3)]
			case "S":
				t = []*Ty{TSI, TAnyS}[g.R.Intn(2)]
			case "SI", "AnyStruct":
				t = []*Ty{TS, TAnyS, TInt}[g.R.Intn(3)]
			}
			au = ""
		}
		return Op{K: "cap.derive", A: a, Q: q, T: t, S: au, N: g.nonce}
	case 20:
		n := pick()
		return Op{K: "cap.ipub", A: max1(c.Vals[n].Acct), N: n, S: inboxNames[g.R.Intn(len(inboxNames))], B: g.acct()}
	default:
		// claim / unpublish with the capability's own type (or a provider/name/recipient that does not match)
		prov, name := g.acct(), inboxNames[g.R.Intn(len(inboxNames))]
		t, au := TR, ""
		claimer := g.acct()
		for a, mm := range c.Inbox {
			for nme, e := range mm {
				if g.R.Chance(0.6) && e.Cap.Ctl >= 0 {
					prov, name, t, au, claimer = a, nme, e.Cap.T, e.Cap.Auth, e.Recipient
				}
			}
		}
		if g.R.Chance(0.15) {
			claimer = g.acct()
		}
		if g.R.Chance(0.25) {
			return Op{K: "cap.iunpub", A: prov, S: name, T: t, M: au}
		}
		return Op{K: "cap.iclaim", A: prov, B: claimer, S: name, T: t, M: au, N: g.nonce}
	}
}

func max1(a int) int {
	if a < 1 {
		return 1
	}
	return a
}
