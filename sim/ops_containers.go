package main

// Container family (C20): arrays and dictionaries against list / finite-map models, in memory and through
// auth(Mutate) references to stored containers.

import (
	"fmt"
	"math/big"
	"sort"
	"strings"
)

// c.new  {A,P,V}            save a container literal
// c.ops  {A,P,T,M,Sub}      M = "ref" (borrow auth(Mutate) &T) | "mem" (load, operate, save back)

// hugeIdx: indices at or beyond +-hugeIdx stand for Int values that do not fit in 64 bits (2^64 + k, -2^64 - k): the model sees
// an index far out of range, the program an arbitrary-precision Int literal.
const hugeIdx = 1 << 60

func idxLit(i int) string {
	switch {
	case i >= hugeIdx:
		return new(big.Int).Add(new(big.Int).Lsh(big.NewInt(1), 64), big.NewInt(int64(i-hugeIdx))).String()
	case i <= -hugeIdx:
		return "(-" + new(big.Int).Add(new(big.Int).Lsh(big.NewInt(1), 64), big.NewInt(int64(-i-hugeIdx))).String() + ")"
	}
	return fmt.Sprint(i)
}

func isPrim(t *Ty) bool { return t.K == "Int" || t.K == "String" || t.K == "Bool" || t.K == "UInt64" }

func (o Op) codeContainers(k int, m *Model) (string, bool) {
	n := func(s string) string { return fmt.Sprintf("%s_%d", s, k) }
	st := sv(o.A) + ".storage"
	var b strings.Builder
	w := func(f string, a ...any) { fmt.Fprintf(&b, "        "+f+"\n", a...) }
	switch o.K {
	case "c.new":
		w(`%s.save(%s, to: %s)`, st, o.V.Lit(), sp(o.P))
		return b.String(), true
	case "c.ops":
	default:
		return "", false
	}
	c := n("c")
	ref := o.M == "ref"
	if ref {
		w(`let %s = %s.borrow<auth(Mutate) &%s>(from: %s)!`, c, st, o.T.Src(), sp(o.P))
	} else {
		w(`var %s = %s.load<%s>(from: %s)!`, c, st, o.T.Src(), sp(o.P))
	}
	et := o.T.Elem
	// reading an element through a reference yields a reference for non-primitive elements: dereference it
	// copying a non-primitive element out of a reference: `*` for containers of primitives, a cloning function for structs
	deref := func(expr string) string {
		if et.K == "S" {
			return "World.cloneS(" + expr + ")"
		}
		return "*" + expr
	}
	elemRead := func(expr string) string {
		if ref && !isPrim(et) {
			return deref(expr)
		}
		return expr
	}
	optElemRead := func(expr string, j int) string {
		if ref && !isPrim(et) {
			return fmt.Sprintf("(%s == nil ? nil : %s) as %s?", expr, deref(expr+"!"), et.Src())
		}
		return expr
	}
	star := ""
	if ref {
		star = "*"
	}
	for j, s := range o.Sub {
		tag := fmt.Sprintf("%s%d", s.S, j)
		switch s.S {
		// ---- arrays
		case "append":
			w(`%s.append(%s)`, c, s.V.Lit())
		case "appendAll":
			w(`%s.appendAll(%s)`, c, s.V.Lit())
		case "insert":
			w(`%s.insert(at: %s, %s)`, c, idxLit(s.I), s.V.Lit())
		case "remove":
			w(`%s`, ob(tag, et, false, fmt.Sprintf("%s.remove(at: %s)", c, idxLit(s.I))))
		case "removeFirst":
			w(`%s`, ob(tag, et, false, c+".removeFirst()"))
		case "removeLast":
			w(`%s`, ob(tag, et, false, c+".removeLast()"))
		case "get":
			w(`%s`, ob(tag, et, false, elemRead(fmt.Sprintf("%s[%s]", c, idxLit(s.I)))))
		case "set":
			w(`%s[%s] = %s`, c, idxLit(s.I), s.V.Lit())
		case "slice":
			w(`%s`, ob(tag, TArr(et), false, fmt.Sprintf("%s.slice(from: %s, upTo: %s)", c, idxLit(s.I), idxLit(s.J))))
		case "reverse":
			w(`%s`, ob(tag, o.T, false, c+".reverse()"))
		case "concat":
			w(`%s`, ob(tag, o.T, false, fmt.Sprintf("%s.concat(%s)", c, s.V.Lit())))
		case "filter":
			w(`%s`, ob(tag, o.T, false, c+".filter(view fun (x: Int): Bool { return x % 2 == 0 })"))
		case "map":
			w(`%s`, ob(tag, o.T, false, c+".map(fun (x: Int): Int { return x * 2 + 1 })"))
		case "contains":
			w(`%s`, ob(tag, TBool, false, fmt.Sprintf("%s.contains(%s)", c, s.V.Lit())))
		case "firstIndex":
			w(`%s`, ob(tag, TInt, true, fmt.Sprintf("%s.firstIndex(of: %s)", c, s.V.Lit())))
		case "length":
			w(`%s`, ob(tag, TInt, false, c+".length"))
		case "toConst":
			w(`%s`, ob(tag, TArr(et), true, fmt.Sprintf("%s.toConstantSized<[%s; %d]>()?.toVariableSized()", c, et.Src(), s.I)))
		case "toVar":
			w(`%s`, ob(tag, TArr(et), false, c+".toVariableSized()"))
		case "iter":
			w(`var %s_%d: [%s] = []`, n("it"), j, et.Src())
			if ref && !isPrim(et) {
				w(`for e in %s { %s_%d.append(%s) }`, c, n("it"), j, deref("e"))
			} else {
				w(`for e in %s { %s_%d.append(e) }`, c, n("it"), j)
			}
			w(`%s`, ob(tag, TArr(et), false, fmt.Sprintf("%s_%d", n("it"), j)))
		// ---- dictionaries
		case "dinsert":
			w(`%s`, ob(tag, et, true, fmt.Sprintf("%s.insert(key: %s, %s)", c, s.K.Lit(), s.V.Lit())))
		case "dremove":
			w(`%s`, ob(tag, et, true, fmt.Sprintf("%s.remove(key: %s)", c, s.K.Lit())))
		case "dget":
			w(`%s`, ob(tag, et, true, optElemRead(fmt.Sprintf("%s[%s]", c, s.K.Lit()), j)))
		case "dset":
			w(`%s[%s] = %s`, c, s.K.Lit(), s.V.Lit())
		case "dsetnil":
			w(`%s[%s] = nil`, c, s.K.Lit())
		case "keys":
			w(`%s`, ob("~"+tag, TArr(o.T.Key), false, star+c+".keys"))
		case "values":
			w(`%s`, ob("~"+tag, TArr(et), false, star+c+".values"))
		case "containsKey":
			w(`%s`, ob(tag, TBool, false, fmt.Sprintf("%s.containsKey(%s)", c, s.K.Lit())))
		case "forEachKey":
			w(`var %s_%d: [%s] = []`, n("fk"), j, o.T.Key.Src())
			w(`%s.forEachKey(fun (k: %s): Bool { %s_%d.append(k); return true })`, c, o.T.Key.Src(), n("fk"), j)
			w(`%s`, ob("~"+tag, TArr(o.T.Key), false, fmt.Sprintf("%s_%d", n("fk"), j)))
		case "diter":
			w(`var %s_%d: {%s: %s} = {}`, n("di"), j, o.T.Key.Src(), et.Src())
			if ref && !isPrim(et) {
				w(`for k in %s.keys { %s_%d[k] = %s }`, c, n("di"), j, deref(c+"[k]!"))
			} else {
				w(`for k in %s.keys { %s_%d[k] = %s[k]! }`, c, n("di"), j, c)
			}
			w(`%s`, ob(tag, o.T, false, fmt.Sprintf("%s_%d", n("di"), j)))
		case "dlength":
			w(`%s`, ob(tag, TInt, false, c+".length"))
		default:
			panic("harness: container subop " + s.S)
		}
	}
	if !ref {
		w(`%s.save(%s, to: %s)`, st, c, sp(o.P))
	}
	return b.String(), true
}

func arrCanon(vs []*Val) string {
	var parts []string
	for _, v := range vs {
		parts = append(parts, v.Canon())
	}
	return "[" + strings.Join(parts, ", ") + "]"
}

func sortedArrCanon(vs []*Val) string {
	var parts []string
	for _, v := range vs {
		parts = append(parts, v.Canon())
	}
	sort.Strings(parts)
	return "[" + strings.Join(parts, ", ") + "]"
}

func (m *Model) applyContainers(o Op, pr *Pred) (string, bool) {
	switch o.K {
	case "c.new":
		return m.save(o.A, o.P, o.V.Clone()), true
	case "c.ops":
	default:
		return "", false
	}
	c, f := m.typed(o.A, o.P, o.T)
	if f != "" {
		return f, true
	}
	if c == nil {
		return FNil, true
	}
	if !c.T.Equal(o.T) {
		return FPanic, true
	}
	if o.M != "ref" {
		// load<T>: the static type of the loaded value is its dynamic type; it is removed and saved back at the end
		delete(m.Accts[o.A].Storage, o.P)
	}
	for j, s := range o.Sub {
		tag := fmt.Sprintf("%s%d", s.S, j)
		n := len(c.Elems)
		switch s.S {
		case "append":
			c.Elems = append(c.Elems, s.V.Clone())
		case "appendAll":
			for _, e := range s.V.Elems {
				c.Elems = append(c.Elems, e.Clone())
			}
		case "insert":
			if s.I < 0 || s.I > n {
				return FIndex, true
			}
			c.Elems = append(c.Elems[:s.I:s.I], append([]*Val{s.V.Clone()}, c.Elems[s.I:]...)...)
		case "remove":
			if s.I < 0 || s.I >= n {
				return FIndex, true
			}
			pr.obs(tag, c.Elems[s.I].Canon())
			c.Elems = append(c.Elems[:s.I:s.I], c.Elems[s.I+1:]...)
		case "removeFirst":
			if n == 0 {
				return FIndex, true
			}
			pr.obs(tag, c.Elems[0].Canon())
			c.Elems = c.Elems[1:]
		case "removeLast":
			if n == 0 {
				return FIndex, true
			}
			pr.obs(tag, c.Elems[n-1].Canon())
			c.Elems = c.Elems[:n-1]
		case "get":
			if s.I < 0 || s.I >= n {
				return FIndex, true
			}
			pr.obs(tag, c.Elems[s.I].Canon())
		case "set":
			if s.I < 0 || s.I >= n {
				return FIndex, true
			}
			c.Elems[s.I] = s.V.Clone()
		case "slice":
			if s.I < 0 || s.J > n || s.I > s.J {
				return FSlice, true
			}
			pr.obs(tag, arrCanon(c.Elems[s.I:s.J]))
		case "reverse":
			var r []*Val
			for i := n - 1; i >= 0; i-- {
				r = append(r, c.Elems[i])
			}
			pr.obs(tag, arrCanon(r))
		case "concat":
			pr.obs(tag, arrCanon(append(append([]*Val{}, c.Elems...), s.V.Elems...)))
		case "filter":
			var r []*Val
			for _, e := range c.Elems {
				if e.I%2 == 0 {
					r = append(r, e)
				}
			}
			pr.obs(tag, arrCanon(r))
		case "map":
			var r []*Val
			for _, e := range c.Elems {
				r = append(r, VInt(e.I*2+1))
			}
			pr.obs(tag, arrCanon(r))
		case "contains":
			found := false
			for _, e := range c.Elems {
				if e.Canon() == s.V.Canon() {
					found = true
				}
			}
			pr.obs(tag, fmt.Sprint(found))
		case "firstIndex":
			idx := -1
			for i, e := range c.Elems {
				if e.Canon() == s.V.Canon() {
					idx = i
					break
				}
			}
			if idx < 0 {
				pr.obs(tag, "nil")
			} else {
				pr.obs(tag, fmt.Sprintf("Int(%d)", idx))
			}
		case "length":
			pr.obs(tag, fmt.Sprintf("Int(%d)", n))
		case "toConst":
			if s.I != n {
				pr.obs(tag, "nil")
			} else {
				pr.obs(tag, arrCanon(c.Elems))
			}
		case "toVar", "iter":
			pr.obs(tag, arrCanon(c.Elems))
		case "dinsert":
			old := c.DictSet(s.K.Clone(), s.V.Clone())
			pr.obs(tag, optCanon(old))
		case "dremove":
			old := c.DictRemove(s.K)
			pr.obs(tag, optCanon(old))
		case "dget":
			if i, ok := c.DictGet(s.K); ok {
				pr.obs(tag, optCanon(c.Vals[i]))
			} else {
				pr.obs(tag, "nil")
			}
		case "dset":
			c.DictSet(s.K.Clone(), s.V.Clone())
		case "dsetnil":
			c.DictRemove(s.K)
		case "keys", "forEachKey":
			pr.obs("~"+tag, sortedArrCanon(c.Keys))
		case "values":
			pr.obs("~"+tag, sortedArrCanon(c.Vals))
		case "containsKey":
			_, ok := c.DictGet(s.K)
			pr.obs(tag, fmt.Sprint(ok))
		case "diter":
			pr.obs(tag, c.Canon())
		case "dlength":
			pr.obs(tag, fmt.Sprintf("Int(%d)", len(c.Keys)))
		}
	}
	if o.M != "ref" {
		return m.save(o.A, o.P, c), true
	}
	return "", true
}
