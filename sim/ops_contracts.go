package main

// Contract lifecycle family (C26): add / update / tryUpdate / remove / get / borrow / names, and calls into the deployed version.

import (
	"crypto/sha3"
	"fmt"
	"sort"
	"strings"
)

var dbgEventDeclChanged, dbgCalls int

type Deployed struct {
	LastCallVer int // version whose event declaration the last ct.call emitted (0: never called)
	Ver     int
	Variant string // "ok" | "enum"
	X       int64  // the contract's stored field
	Fresh   bool   // added in the current transaction (its value is not observable yet)
}

type ContractModel struct {
	VI      bool // the contract interface VI is deployed next to World
	Accts   map[int]map[string]*Deployed
	Touched map[string]bool // "a/name": a lifecycle mutator already ran in the current transaction
	Changed map[string]bool // "a/name": the code of the contract was changed (add / update / remove) by the current transaction
}

func NewContractModel() *ContractModel {
	return &ContractModel{Accts: map[int]map[string]*Deployed{}, Touched: map[string]bool{}, Changed: map[string]bool{}}
}

func (c *ContractModel) Clone() *ContractModel {
	n := NewContractModel()
	n.VI = c.VI
	for a, m := range c.Accts {
		n.Accts[a] = map[string]*Deployed{}
		for k, d := range m {
			dc := *d
			n.Accts[a][k] = &dc
		}
	}
	for k, v := range c.Touched {
		n.Touched[k] = v
	}
	for k, v := range c.Changed {
		n.Changed[k] = v
	}
	return n
}

func (c *ContractModel) BeginTx() {
	c.Touched = map[string]bool{}
	c.Changed = map[string]bool{}
	for _, m := range c.Accts {
		for _, d := range m {
			d.Fresh = false
		}
	}
}

func (c *ContractModel) Hash() string {
	var parts []string
	for a, m := range c.Accts {
		for k, d := range m {
			parts = append(parts, fmt.Sprintf("%d/%s=%d/%s/%d", a, k, d.Ver, d.Variant, d.X))
		}
	}
	sort.Strings(parts)
	return strings.Join(parts, ",")
}

func (c *ContractModel) get(a int, name string) *Deployed {
	if c.Accts[a] == nil {
		return nil
	}
	return c.Accts[a][name]
}

// ctSource renders the source of contract `name`, version ver, in the given variant.
//   ok        valid; any two ok/enum versions of the same name are update-compatible (same field, functions differ)
//   enum      valid, declares an enum (removal must be refused)
//   illtyped  does not type check
//   misnamed  declares a contract of another name
//   incompat  valid program, but the field type differs (update must be refused)
//   syntax    does not parse
func ctSource(name string, ver int, variant string) string {
	// the declaration of the event changes with the version: an update may change an event's parameters (events are not stored)
	ev, emit := "access(all) event Bumped(x: Int)", "emit Bumped(x: self.x)"
	if ver%2 == 1 {
		ev, emit = "access(all) event Bumped(tag: String, x: Int, ver: Int)", fmt.Sprintf(`emit Bumped(tag: "v%d", x: self.x, ver: %d)`, ver, ver)
	}
	body := fmt.Sprintf(`
    %s
    access(all) var x: Int
    access(all) fun ver(): Int { return %d }
    access(all) fun bump() { self.x = self.x + 1; %s }
    init() { self.x = %d }
`, ev, ver, emit, ver*10)
	switch variant {
	case "ok":
		return fmt.Sprintf("import VI from 0x1\naccess(all) contract %s: VI {%s}", name, body)
	case "enum":
		return fmt.Sprintf("import VI from 0x1\naccess(all) contract %s: VI {\n    access(all) enum K: UInt8 { access(all) case a; access(all) case b }%s}", name, body)
	case "illtyped":
		return fmt.Sprintf("access(all) contract %s {\n    access(all) var x: Int\n    access(all) fun ver(): Int { return \"%d\" }\n    init() { self.x = 1 }\n}", name, ver)
	case "misnamed":
		return fmt.Sprintf("import VI from 0x1\naccess(all) contract %sX: VI {%s}", name, body)
	case "incompat":
		return fmt.Sprintf("import VI from 0x1\naccess(all) contract %s: VI {\n    %s\n    access(all) var x: String\n    access(all) fun ver(): Int { return %d }\n    access(all) fun bump() { %s }\n    init() { self.x = \"\" }\n}", name, ev, ver, strings.Replace(emit, "self.x", "1", -1))
	case "syntax":
		return fmt.Sprintf("access(all) contract %s { access(all) var x: Int init( { self.x = %d } }", name, ver)
	case "initfail":
		// a valid program whose initializer aborts at run time: deploying it fails, updating to it is fine (initializers do not run on update)
		return fmt.Sprintf("import VI from 0x1\naccess(all) contract %s: VI {\n    %s\n    access(all) var x: Int\n    access(all) fun ver(): Int { return %d }\n    access(all) fun bump() { self.x = self.x + 1; %s }\n    init() { self.x = %d; if self.x >= 0 { panic(\"init of %s\") } }\n}", name, ev, ver, emit, ver*10, name)
	}
	panic("harness: contract variant " + variant)
}

func (o Op) extraImport() string {
	if o.K == "ct.call" {
		return fmt.Sprintf("import %s from 0x%x", o.S, o.A)
	}
	if o.K == "ct.borrow" {
		return "import VI from 0x1"
	}
	return ""
}

// viSrc: the contract interface every lifecycle contract conforms to (deployed next to World)
const viSrc = `access(all) contract interface VI { access(all) fun ver(): Int }`

func (o Op) codeContracts(k int) (string, bool) {
	n := func(s string) string { return fmt.Sprintf("%s_%d", s, k) }
	ct := sv(o.A) + ".contracts"
	var b strings.Builder
	w := func(f string, a ...any) { fmt.Fprintf(&b, "        "+f+"\n", a...) }
	code := func() string { return fmt.Sprintf("%q.decodeHex()", hexs(ctSource(o.S, o.I, o.M))) }
	switch o.K {
	case "ct.add":
		w(`%s`, ob("add", TString, false, fmt.Sprintf("%s.add(name: %q, code: %s).name", ct, o.S, code())))
	case "ct.update":
		w(`%s`, ob("upd", TString, false, fmt.Sprintf("%s.update(name: %q, code: %s).name", ct, o.S, code())))
	case "ct.tryUpdate":
		w(`World.mark("TRY-BEGIN")`)
		w(`let %s = %s.tryUpdate(name: %q, code: %s)`, n("res"), ct, o.S, code())
		w(`World.mark("TRY-END")`)
		w(`%s`, ob("try", TString, true, n("res")+".deployedContract?.name"))
	case "ct.remove":
		w(`%s`, ob("rem", TString, true, fmt.Sprintf("%s.remove(name: %q)?.name", ct, o.S)))
	case "ct.get":
		w(`let %s = %s.get(name: %q)`, n("dc"), ct, o.S)
		w(`%s`, ob("get", TString, true, n("dc")+"?.name"))
		w(`%s`, ob("len", TInt, true, n("dc")+"?.code?.length"))
	case "ct.borrow":
		w(`%s`, ob("bor", TBool, false, fmt.Sprintf("%s.borrow<&AnyStruct>(name: %q) != nil", ct, o.S)))
		// the code that runs behind the borrowed reference is the deployed version's (the transaction does not import the contract).
		// Not observed (J == 1) after this transaction itself changed the contract's code: whether the old or the new program runs
		// then depends on the host (code visibility inside the updating transaction, program cache), DESIGN.md §4.
		if o.J == 0 {
			w(`%s`, ob("bver", TInt, true, fmt.Sprintf("%s.borrow<&{VI}>(name: %q)?.ver()", ct, o.S)))
		}
	case "ct.names":
		w(`%s`, ob("~names", TArr(TString), false, "*"+ct+".names"))
	case "ct.call":
		w(`%s`, ob("ver", TInt, false, o.S+".ver()"))
		w(`%s.bump()`, o.S)
		w(`%s`, ob("x", TInt, false, o.S+".x"))
	default:
		return "", false
	}
	return b.String(), true
}

func codeHashCanon(src string) string {
	h := sha3.Sum256([]byte(src))
	var parts []string
	for _, b := range h {
		parts = append(parts, fmt.Sprintf("UInt8(%d)", b))
	}
	return "[" + strings.Join(parts, ", ") + "]"
}

func ctEvent(kind string, a int, name, src string) string {
	return fmt.Sprintf("flow.AccountContract%s(address: 0x%016x, codeHash: %s, contract: %q)", kind, a, codeHashCanon(src), name)
}

const (
	FCtExists   = "contractExists"
	FCtMissing  = "contractMissing"
	FCtInvalid  = "invalidContract"
	FCtIncompat = "incompatibleUpdate"
	FCtRemoval  = "removalRefused"
	FChecker    = "checker"
)

func (m *Model) applyContracts(o Op, pr *Pred) (string, bool) {
	c := m.Ctr
	key := fmt.Sprintf("%d/%s", o.A, o.S)
	cur := c.get(o.A, o.S)
	// Touched[key]: the contract was removed (or added and removed) earlier in this transaction. The language reference:
	// "a contract cannot be removed and added again (redeployed) in the same transaction".
	validProgram := o.M == "ok" || o.M == "enum" || o.M == "incompat" || o.M == "initfail"
	switch o.K {
	case "ct.add":
		if cur != nil || c.Touched[key] {
			return FCtExists, true
		}
		if !validProgram {
			return FCtInvalid, true
		}
		if o.M == "initfail" {
			return FPanic, true
		}
		if c.Accts[o.A] == nil {
			c.Accts[o.A] = map[string]*Deployed{}
		}
		variant := o.M
		if variant == "incompat" {
			variant = "ok" // as a first deployment it is just another valid contract... with a String field
			return FCtInvalid, true
		}
		c.Accts[o.A][o.S] = &Deployed{Ver: o.I, Variant: variant, X: int64(o.I * 10), Fresh: true}
		c.Changed[key] = true
		pr.obs("add", fmt.Sprintf("%q", o.S))
		pr.Events = append(pr.Events, ctEvent("Added", o.A, o.S, ctSource(o.S, o.I, o.M)))
	case "ct.update", "ct.tryUpdate":
		fail := ""
		switch {
		case cur == nil:
			fail = FCtMissing
		case !validProgram:
			fail = FCtInvalid
		case o.M == "incompat":
			fail = FCtIncompat
		case cur.Variant == "enum" && o.M != "enum":
			fail = FCtIncompat // removing an enum declaration is not a valid update
		}
		if o.K == "ct.tryUpdate" {
			if fail != "" {
				pr.obs("try", "nil")
				return "", true
			}
			pr.obs("try", fmt.Sprintf("%q", o.S))
		} else {
			if fail != "" {
				return fail, true
			}
			pr.obs("upd", fmt.Sprintf("%q", o.S))
		}
		cur.Ver, cur.Variant = o.I, o.M
		c.Changed[key] = true
		pr.Events = append(pr.Events, ctEvent("Updated", o.A, o.S, ctSource(o.S, o.I, o.M)))
	case "ct.remove":
		if cur == nil {
			pr.obs("rem", "nil")
			return "", true
		}
		if cur.Variant == "enum" {
			return FCtRemoval, true
		}
		pr.obs("rem", fmt.Sprintf("%q", o.S))
		pr.Events = append(pr.Events, ctEvent("Removed", o.A, o.S, ctSource(o.S, cur.Ver, cur.Variant)))
		delete(c.Accts[o.A], o.S)
		c.Touched[key] = true
		c.Changed[key] = true
	case "ct.get":
		if cur == nil {
			pr.obs("get", "nil")
			pr.obs("len", "nil")
		} else {
			pr.obs("get", fmt.Sprintf("%q", o.S))
			pr.obs("len", fmt.Sprintf("Int(%d)", len(ctSource(o.S, cur.Ver, cur.Variant))))
		}
	case "ct.borrow":
		// a contract deployed in the current transaction is not observable yet (contract updates are delayed)
		pr.obs("bor", fmt.Sprint(cur != nil && !cur.Fresh))
		if o.J == 0 {
			if cur != nil && !cur.Fresh {
				pr.obs("bver", fmt.Sprintf("Int(%d)", cur.Ver))
			} else {
				pr.obs("bver", "nil")
			}
		}
	case "ct.names":
		var ns []string
		for nme := range c.Accts[o.A] {
			ns = append(ns, fmt.Sprintf("%q", nme))
		}
		if o.A == WorldAddr {
			ns = append(ns, `"World"`)
			if c.VI {
				ns = append(ns, `"VI"`)
			}
		}
		sort.Strings(ns)
		pr.obs("~names", "["+strings.Join(ns, ", ")+"]")
	case "ct.call":
		// reaching this point means the import resolved (see Predict)
		if cur == nil {
			return FChecker, true
		}
		pr.obs("ver", fmt.Sprintf("Int(%d)", cur.Ver))
		dbgCalls++
		if cur.LastCallVer != 0 && cur.LastCallVer%2 != cur.Ver%2 {
			dbgEventDeclChanged++
		}
		cur.LastCallVer = cur.Ver
		cur.X++
		pr.obs("x", fmt.Sprintf("Int(%d)", cur.X))
		if cur.Variant == "ok" || cur.Variant == "enum" || cur.Variant == "initfail" {
			if cur.Ver%2 == 1 {
				pr.Events = append(pr.Events, fmt.Sprintf("A.%016x.%s.Bumped(tag: \"v%d\", x: Int(%d), ver: Int(%d))", o.A, o.S, cur.Ver, cur.X, cur.Ver))
			} else {
				pr.Events = append(pr.Events, fmt.Sprintf("A.%016x.%s.Bumped(x: Int(%d))", o.A, o.S, cur.X))
			}
		}
	default:
		return "", false
	}
	return "", true
}

// importsResolve: a transaction importing a contract that is not deployed at its start fails in the checker, before any op runs.
func (m *Model) importsResolve(ops []Op) (bool, int) {
	for k, o := range ops {
		if o.K == "ct.call" && m.Ctr.get(o.A, o.S) == nil {
			return false, k
		}
	}
	return true, -1
}

var ctNames = []string{"CA", "CB", "CC"}

func (g *Gen) contractOp() Op {
	a := g.acct()
	name := ctNames[g.R.Intn(len(ctNames))]
	// bias towards contracts that exist: histories of one contract (add, call, update, call, remove, add again) matter more
	// than many first deployments
	if g.R.Chance(0.6) {
		type an struct {
			a int
			n string
		}
		var deployed []an
		for acct := 1; acct <= g.Cfg.NAccts; acct++ {
			for _, nm := range ctNames {
				if g.M.Ctr.get(acct, nm) != nil {
					deployed = append(deployed, an{acct, nm})
				}
			}
		}
		if len(deployed) > 0 {
			d := deployed[g.R.Intn(len(deployed))]
			a, name = d.a, d.n
		}
	}
	cur := g.M.Ctr.get(a, name)
	key := fmt.Sprintf("%d/%s", a, name)
	g.nonce++
	ver := g.nonce
	_ = key
	if g.R.Chance(0.55) {
		variant := "ok"
		switch {
		case g.R.Chance(0.15):
			variant = "enum"
		case g.R.Chance(0.08):
			variant = "illtyped"
		case g.R.Chance(0.05):
			variant = "misnamed"
		case g.R.Chance(0.05):
			variant = "syntax"
		case g.R.Chance(0.12):
			variant = "initfail"
		}
		if cur != nil && cur.Variant == "enum" && variant == "ok" && g.R.Chance(0.8) {
			variant = "enum"
		}
		switch {
		case cur == nil && g.M.Ctr.Touched[key]:
			return Op{K: "ct.add", A: a, S: name, I: ver, M: "ok", Edge: true}
		case cur != nil && cur.Fresh && g.R.Chance(0.5):
			// remove (or update) a contract deployed earlier in this same transaction
			if g.R.Chance(0.6) {
				return Op{K: "ct.remove", A: a, S: name, Edge: cur.Variant == "enum"}
			}
			if g.R.Chance(0.35) {
				// an update that must be refused, of a contract deployed by this very transaction
				k := "ct.update"
				if g.R.Chance(0.4) {
					k = "ct.tryUpdate"
				}
				return Op{K: k, A: a, S: name, I: ver, M: "incompat", Edge: true}
			}
			return Op{K: "ct.update", A: a, S: name, I: ver, M: cur.Variant}
		case cur == nil && g.R.Chance(0.85):
			return Op{K: "ct.add", A: a, S: name, I: ver, M: variant, Edge: variant != "ok" && variant != "enum"}
		case cur != nil && g.R.Chance(0.2):
			return Op{K: "ct.remove", A: a, S: name, Edge: cur.Variant == "enum"}
		case g.R.Chance(0.5):
			if g.R.Chance(0.15) {
				variant = "incompat"
			}
			return Op{K: "ct.tryUpdate", A: a, S: name, I: ver, M: variant}
		case g.R.Chance(0.1):
			return Op{K: "ct.add", A: a, S: name, I: ver, M: variant, Edge: true}
		default:
			if g.R.Chance(0.15) {
				variant = "incompat"
			}
			return Op{K: "ct.update", A: a, S: name, I: ver, M: variant, Edge: cur == nil || (variant != "ok" && variant != "enum")}
		}
	}
	switch g.R.Intn(3) {
	case 0:
		return Op{K: "ct.get", A: a, S: name}
	case 1:
		o := Op{K: "ct.borrow", A: a, S: name}
		if g.M.Ctr.Changed[key] {
			o.J = 1
		}
		return o
	default:
		return Op{K: "ct.names", A: a}
	}
}
