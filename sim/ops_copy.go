package main

// Copy-semantics family (C05).
// cp.probe {A,P,T(S | [S] | {String: [Int]}), S=form, I=mutation, J=which side is mutated (0: the copy, 1: the original), Q: optional path to save the copy to}

import (
	"fmt"
	"strings"
)

var CopyForms = []string{"assign", "argret", "array", "dict", "field", "optional", "saveload", "anystruct", "refderef", "closure", "arraylit", "dictlit", "arglit"}

// litfx forms: the copy is made by evaluating `a` as an operand of a literal or call whose LATER operand has a side effect on the
// variable a (through a closure): the copy must hold the value a had when it was evaluated. The mutation is always on the original.
func isLitFx(form string) bool { return form == "arraylit" || form == "dictlit" || form == "arglit" }

func (o Op) codeCopy(k int) (string, bool) {
	if o.K != "cp.probe" {
		return "", false
	}
	n := func(s string) string { return fmt.Sprintf("%s_%d", s, k) }
	st := sv(o.A) + ".storage"
	var b strings.Builder
	w := func(f string, a ...any) { fmt.Fprintf(&b, "        "+f+"\n", a...) }
	a, c := n("a"), n("b")
	ts := o.T.Src()
	w(`var %s = %s.copy<%s>(from: %s)!`, a, st, ts, sp(o.P))
	w(`if %s.getType() != Type<%s>() { World.fail("value copied under a supertype") }`, a, ts)
	tgt := c
	if o.J == 1 || isLitFx(o.S) {
		tgt = a
	}
	var mb strings.Builder
	mw := func(f string, a ...any) { fmt.Fprintf(&mb, "        "+f+"\n", a...) }
	switch copyKind(o.T) {
	case "S":
		switch o.I {
		case 0:
			mw(`%s.setA(%d)`, tgt, 900+o.N)
		case 1:
			mw(`%s.push(%d)`, tgt, 900+o.N)
		case 2:
			mw(`%s.put("cp", %d)`, tgt, 900+o.N)
		case 3:
			mw(`%s.addKid(World.mkS(%d, [], {}, [], nil, nil))`, tgt, 900+o.N)
		case 4:
			mw(`%s.setKidA(0, %d)`, tgt, 900+o.N)
		case 5:
			mw(`let %s = &%s as &World.S`, n("mr"), tgt)
			mw(`%s.push(%d)`, n("mr"), 900+o.N)
		case 6:
			mw(`let %s = &%s as &World.S`, n("mr"), tgt)
			mw(`%s.kids[0].setA(%d)`, n("mr"), 900+o.N)
		case 7:
			mw(`%s.pushOA(%d)`, tgt, 900+o.N)
		case 8:
			mw(`let %s = &%s as &World.S`, n("mr"), tgt)
			mw(`%s.pushOA(%d)`, n("mr"), 900+o.N)
		case 9:
			mw(`%s.setO("cp%d")`, tgt, o.N)
		}
	case "Arr": // [S]
		switch o.I {
		case 0:
			mw(`%s.append(World.mkS(%d, [], {}, [], nil, nil))`, tgt, 900+o.N)
		case 1:
			mw(`%s[0].setA(%d)`, tgt, 900+o.N)
		case 2:
			mw(`%s[0].push(%d)`, tgt, 900+o.N)
		case 3:
			mw(`let %s = &%s as auth(Mutate) &[World.S]`, n("mr"), tgt)
			mw(`%s.append(World.mkS(%d, [], {}, [], nil, nil))`, n("mr"), 900+o.N)
		case 4:
			mw(`let %s = &%s as &[World.S]`, n("mr"), tgt)
			mw(`%s[0].setA(%d)`, n("mr"), 900+o.N)
		case 5:
			mw(`%s.remove(at: 0)`, tgt)
		case 6:
			mw(`%s[0] = World.mkS(%d, [], {}, [], nil, nil)`, tgt, 900+o.N)
		}
	case "OArr": // [[Int]?]
		switch o.I % 4 {
		case 0:
			mw(`%s[0]!.append(%d)`, tgt, 900+o.N)
		case 1:
			mw(`%s.append([%d])`, tgt, 900+o.N)
		case 2:
			mw(`%s[0] = nil`, tgt)
		case 3:
			mw(`let %s = &%s as auth(Mutate) &[[Int]?]`, n("mr"), tgt)
			mw(`%s[0] = [%d]`, n("mr"), 900+o.N)
		}
	case "Dict": // {String: [Int]}
		switch o.I {
		case 0:
			mw(`%s["cp"] = [%d]`, tgt, 900+o.N)
		case 1:
			mw(`%s["a"]!.append(%d)`, tgt, 900+o.N)
		case 2:
			mw(`%s.remove(key: "a")`, tgt)
		case 3:
			mw(`let %s = &%s as auth(Mutate) &{String: [Int]}`, n("mr"), tgt)
			mw(`%s["a"] = (*(%s["a"]!)).concat([%d])`, n("mr"), n("mr"), 900+o.N)
		default:
			mw(`%s["a"] = []`, tgt)
		}
	}
	switch o.S {
	case "assign":
		w(`var %s = %s`, c, a)
	case "argret":
		w(`var %s = World.idAny(%s) as! %s`, c, a, ts)
	case "array":
		w(`let %s = [%s]`, n("box"), a)
		w(`var %s = %s[0]`, c, n("box"))
	case "dict":
		w(`let %s = {"k": %s}`, n("box"), a)
		w(`var %s = %s["k"]!`, c, n("box"))
	case "field":
		w(`let %s = World.Box(%s)`, n("box"), a)
		w(`var %s = %s.v as! %s`, c, n("box"), ts)
	case "optional":
		w(`let %s: %s? = %s`, n("box"), ts, a)
		w(`var %s = %s!`, c, n("box"))
	case "saveload":
		w(`%s.save(%s, to: /storage/cptmp%d)`, st, a, o.N)
		w(`var %s = %s.load<%s>(from: /storage/cptmp%d)!`, c, st, ts, o.N)
	case "anystruct":
		w(`let %s: AnyStruct = %s`, n("box"), a)
		w(`var %s = %s as! %s`, c, n("box"), ts)
	case "refderef":
		if o.T.K == "Dict" {
			w(`let %s = &%s as &%s`, n("box"), a, ts)
			w(`var %s = *%s`, c, n("box"))
		} else {
			// `*` is only defined for primitives and containers of primitives: copy out of a reference through a function
			w(`let %s = &%s as &%s`, n("box"), a, ts)
			w(`var %s = World.idAny(%s) as! %s`, c, a, ts)
		}
	case "closure":
		w(`let %s = fun (): %s { return %s }`, n("box"), ts, a)
		w(`var %s = %s()`, c, n("box"))
	case "arraylit", "dictlit", "arglit":
		w(`let %s = fun (): Bool {`, n("fx"))
		b.WriteString(strings.ReplaceAll(mb.String(), "        ", "            "))
		w(`    return true`)
		w(`}`)
		switch o.S {
		case "arraylit":
			w(`let %s: [AnyStruct] = [%s, %s()]`, n("box"), a, n("fx"))
			w(`var %s = %s[0] as! %s`, c, n("box"), ts)
		case "dictlit":
			w(`let %s: {String: AnyStruct} = {"k": %s, "z": %s()}`, n("box"), a, n("fx"))
			w(`var %s = %s["k"]! as! %s`, c, n("box"), ts)
		default:
			w(`let %s = fun (_ x: %s, _ y: Bool): %s { return x }`, n("first"), ts, ts)
			w(`var %s = %s(%s, %s())`, c, n("first"), a, n("fx"))
		}
	default:
		panic("harness: copy form " + o.S)
	}
	if !isLitFx(o.S) {
		b.WriteString(mb.String())
	}
	w(`%s`, ob("cpa", o.T, false, a))
	w(`%s`, ob("cpb", o.T, false, c))
	w(`%s`, ob("cpo", o.T, false, fmt.Sprintf("%s.copy<%s>(from: %s)!", st, ts, sp(o.P))))
	if o.Q != "" {
		w(`%s.save(%s, to: %s)`, st, c, sp(o.Q))
	}
	return b.String(), true
}

func (m *Model) applyCopy(o Op, pr *Pred) (string, bool) {
	if o.K != "cp.probe" {
		return "", false
	}
	src, f := m.typed(o.A, o.P, o.T)
	if f != "" {
		return f, true
	}
	if src == nil {
		return FNil, true
	}
	if !src.T.Equal(o.T) {
		return FPanic, true
	}
	a := src.Clone()
	a.T = src.T
	c := a.Clone()
	if o.S == "saveload" {
		if m.Accts[o.A].Storage[fmt.Sprintf("cptmp%d", o.N)] != nil {
			return FOverwrite, true
		}
	}
	tgt := c
	if o.J == 1 || isLitFx(o.S) {
		tgt = a
	}
	k := int64(900 + o.N)
	switch copyKind(o.T) {
	case "OArr":
		if len(tgt.Elems) == 0 && o.I%4 != 1 {
			return FIndex, true
		}
		switch o.I % 4 {
		case 0:
			if tgt.Elems[0].Opt == nil {
				return FNil, true
			}
			tgt.Elems[0].Opt.Elems = append(tgt.Elems[0].Opt.Elems, VInt(k))
		case 1:
			tgt.Elems = append(tgt.Elems, VSome(TOpt(TArr(TInt)), VArr(TArr(TInt), VInt(k))))
		case 2:
			tgt.Elems[0] = VNil(TOpt(TArr(TInt)))
		case 3:
			tgt.Elems[0] = VSome(TOpt(TArr(TInt)), VArr(TArr(TInt), VInt(k)))
		}
	case "S":
		switch o.I {
		case 0:
			tgt.F["a"] = VInt(k)
		case 1, 5:
			tgt.F["xs"].Elems = append(tgt.F["xs"].Elems, VInt(k))
		case 2:
			tgt.F["m"].DictSet(VStr("cp"), VInt(k))
		case 3:
			tgt.F["kids"].Elems = append(tgt.F["kids"].Elems, VS(k, nil, nil))
		case 4, 6:
			if len(tgt.F["kids"].Elems) == 0 {
				return FIndex, true
			}
			tgt.F["kids"].Elems[0].F["a"] = VInt(k)
		case 7, 8:
			if tgt.F["oa"].Opt == nil {
				tgt.F["oa"] = VSome(TOpt(TArr(TInt)), VArr(TArr(TInt), VInt(k)))
			} else {
				tgt.F["oa"].Opt.Elems = append(tgt.F["oa"].Opt.Elems, VInt(k))
			}
		case 9:
			tgt.F["o"] = VSome(TOpt(TString), VStr(fmt.Sprintf("cp%d", o.N)))
		}
	case "Arr":
		switch o.I {
		case 0, 3:
			tgt.Elems = append(tgt.Elems, VS(k, nil, nil))
		case 1, 4:
			if len(tgt.Elems) == 0 {
				return FIndex, true
			}
			tgt.Elems[0].F["a"] = VInt(k)
		case 2:
			if len(tgt.Elems) == 0 {
				return FIndex, true
			}
			tgt.Elems[0].F["xs"].Elems = append(tgt.Elems[0].F["xs"].Elems, VInt(k))
		case 5:
			if len(tgt.Elems) == 0 {
				return FIndex, true
			}
			tgt.Elems = tgt.Elems[1:]
		case 6:
			if len(tgt.Elems) == 0 {
				return FIndex, true
			}
			tgt.Elems[0] = VS(k, nil, nil)
		}
	case "Dict":
		switch o.I {
		case 0:
			tgt.DictSet(VStr("cp"), VArr(TArr(TInt), VInt(k)))
		case 1, 3:
			i, ok := tgt.DictGet(VStr("a"))
			if !ok {
				return FNil, true
			}
			tgt.Vals[i].Elems = append(tgt.Vals[i].Elems, VInt(k))
		case 2:
			tgt.DictRemove(VStr("a"))
		default:
			tgt.DictSet(VStr("a"), VArr(TArr(TInt)))
		}
	}
	pr.obs("cpa", a.Canon())
	pr.obs("cpb", c.Canon())
	pr.obs("cpo", src.Canon())
	if o.Q != "" {
		return m.save(o.A, o.Q, c), true
	}
	return "", true
}

func copyKind(t *Ty) string {
	if t.K == "Arr" && t.Elem.K == "Opt" {
		return "OArr"
	}
	return t.K
}
