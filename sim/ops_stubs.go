package main

type CapModel struct{}

func NewCapModel() *CapModel         { return &CapModel{} }
func (c *CapModel) Clone() *CapModel { return &CapModel{} }
func (c *CapModel) Hash() string     { return "" }


func (o Op) codeCaps(k int) (string, bool)                       { return "", false }
func (m *Model) applyCaps(o Op, pr *Pred) (string, bool)         { return "", false }
func (o Op) codeHostSvc(k int) (string, bool)                    { return "", false }
func (m *Model) applyHostSvc(o Op, pr *Pred) (string, bool)      { return "", false }

func (g *Gen) capOp() Op      { return g.storageOp() }
func (g *Gen) hostSvcOp() Op  { return g.storageOp() }
