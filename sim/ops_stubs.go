package main



func (o Op) codeHostSvc(k int) (string, bool)                    { return "", false }
func (m *Model) applyHostSvc(o Op, pr *Pred) (string, bool)      { return "", false }

func (g *Gen) hostSvcOp() Op  { return g.storageOp() }
