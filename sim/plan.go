package main

// Plan: the explicit, replayable history (DESIGN.md §3.4). Executing a plan is a pure function of (plan, code under test).

import (
	"encoding/json"
	"fmt"
	"os"
	"strings"
)

type Attempt struct {
	Faults []FaultSpec `json:"faults"`
}

type NoiseStep struct {
	Kind string `json:"kind"` // "script" | "abortedtx"
	Ops  []Op   `json:"ops"`
}

type Step struct {
	Kind     string                 `json:"kind"` // deploy | tx | script | restart | evict | rawtx | rawscript
	Ops      []Op                   `json:"ops,omitempty"`
	Node     string                 `json:"node,omitempty"` // restart / evict target ("" = every shadow node)
	Loc      string                 `json:"loc,omitempty"`  // evict: location ("" = all)
	Attempts map[string][]Attempt   `json:"attempts,omitempty"`
	Noise    map[string][]NoiseStep `json:"noise,omitempty"`
	Source   string                 `json:"source,omitempty"`
	Signers  []uint64               `json:"signers,omitempty"`
	Args     []string               `json:"args,omitempty"`
	Name     string                 `json:"name,omitempty"` // deploy: contract name
	Repeat   int                    `json:"repeat,omitempty"` // same-engine nodes re-run this step this many extra times as dry runs (map-order sampling)
	// scenario steps (raw steps named "scn:<scenario>:<k>"): hand-written expectation of the log, or of the failure
	Expect    []string `json:"expect,omitempty"`
	HasExpect bool     `json:"has_expect,omitempty"`
	Fails     string   `json:"fails,omitempty"`
	SameEngineOnly bool `json:"same_engine_only,omitempty"` // replicas are compared with nodes of their own engine only
}

func (s *Step) IsScenario() bool { return strings.HasPrefix(s.Name, "scn:") }

type Plan struct {
	Property string       `json:"property"`
	Seed     uint64       `json:"plan_seed"`
	NAccts   int          `json:"naccts"`
	Nodes    []NodeConfig `json:"nodes"` // Nodes[0] is the primary: clean, never faulted
	Steps    []Step       `json:"steps"`
	Note     string       `json:"note,omitempty"`
}

func (p *Plan) Clone() *Plan {
	b, _ := json.Marshal(p)
	var c Plan
	if err := json.Unmarshal(b, &c); err != nil {
		panic("harness: plan clone: " + err.Error())
	}
	return &c
}

// Shape is the "distinct plan shape" measure: operation kinds and fault sites, without arguments.
func (p *Plan) Shape() string {
	var sb strings.Builder
	for _, s := range p.Steps {
		sb.WriteString(s.Kind + "(")
		for _, o := range s.Ops {
			sb.WriteString(o.K)
			if o.M != "" {
				sb.WriteString("/" + o.M)
			}
			for _, su := range o.Sub {
				sb.WriteString("." + su.S)
			}
			sb.WriteString(",")
		}
		sb.WriteString(")")
		for _, n := range sortedAttemptKeys(s.Attempts) {
			for _, a := range s.Attempts[n] {
				for _, f := range a.Faults {
					sb.WriteString("!" + f.Site + "/" + f.Mode)
				}
			}
		}
		sb.WriteString(";")
	}
	return h64([]byte(sb.String()))
}

func sortedAttemptKeys(m map[string][]Attempt) []string {
	var ks []string
	for k := range m {
		ks = append(ks, k)
	}
	sortStrings(ks)
	return ks
}

type ReplayFile struct {
	Property  string     `json:"property"`
	Oracle    string     `json:"oracle"`
	VerifSeed int64      `json:"verif_seed"`
	Tier      string     `json:"tier"`
	Minimised bool       `json:"minimised"`
	Kind      string     `json:"kind"` // "plan" | custom kinds of specialised checks
	Plan      *Plan      `json:"plan,omitempty"`
	Custom    json.RawMessage `json:"custom,omitempty"`
	Violation *Violation `json:"violation"`
}

func WriteReplay(dir string, rf *ReplayFile, tag string) string {
	os.MkdirAll(dir, 0o755)
	path := fmt.Sprintf("%s/%s-%s.json", dir, rf.Property, tag)
	b, _ := json.MarshalIndent(rf, "", " ")
	if err := os.WriteFile(path, b, 0o644); err != nil {
		panic("harness: cannot write replay file: " + err.Error())
	}
	return path
}
