package main

// Runner: executes a plan on the primary and shadow nodes, evaluates the shared oracles (DESIGN.md §6)
// after every step and records violations with the property they belong to.

import (
	"os"
	"crypto/sha256"
	"encoding/hex"
	"fmt"
	"sort"
	"strconv"
	goruntime "runtime"
	"strings"

	"github.com/onflow/cadence/common"
)

type Violation struct {
	Property string `json:"property"`
	Oracle   string `json:"oracle"`
	Step     int    `json:"step"`
	Node     string `json:"node,omitempty"`
	Detail   string `json:"detail"`
	Key      string `json:"key"` // stable identity of the failing site, for known-findings matching
	Engine   string `json:"engine,omitempty"`
}

func (v Violation) String() string {
	return fmt.Sprintf("[%s/%s step=%d node=%s] %s", v.Property, v.Oracle, v.Step, v.Node, v.Detail)
}

type RunStats struct {
	Execs           int
	Steps           int
	Committed       int
	PredictedFails  int
	Scripts         int
	AbortedAttempts int
	NotFired        int
	Restarts        int
	Evictions       int
	NoiseRuns       int
	Repeats         int
	HealthChecks    int
	Readbacks       int
	GaugeCalls      int
	HostCalls       int
	SimBlocks       int
	NumCPU          map[string]int // plans run per runtime.NumCPU() value of the worker process
	FaultsFired     map[string]int
	Probes          map[string]int
	ByEngine        map[string]int
	OpKinds         map[string]int
	ModelStates     map[string]bool
	FailKinds       map[string]int
}

func NewRunStats() *RunStats {
	return &RunStats{NumCPU: map[string]int{}, FaultsFired: map[string]int{}, Probes: map[string]int{}, ByEngine: map[string]int{}, OpKinds: map[string]int{}, ModelStates: map[string]bool{}, FailKinds: map[string]int{}}
}

func (s *RunStats) Merge(o *RunStats) {
	s.Execs += o.Execs
	s.Steps += o.Steps
	s.Committed += o.Committed
	s.PredictedFails += o.PredictedFails
	s.Scripts += o.Scripts
	s.AbortedAttempts += o.AbortedAttempts
	s.NotFired += o.NotFired
	s.Restarts += o.Restarts
	s.Evictions += o.Evictions
	s.NoiseRuns += o.NoiseRuns
	s.Repeats += o.Repeats
	s.HealthChecks += o.HealthChecks
	s.Readbacks += o.Readbacks
	s.GaugeCalls += o.GaugeCalls
	s.HostCalls += o.HostCalls
	s.SimBlocks += o.SimBlocks
	for k, v := range o.FaultsFired {
		s.FaultsFired[k] += v
	}
	for k, v := range o.NumCPU {
		s.NumCPU[k] += v
	}
	for k, v := range o.Probes {
		if strings.HasPrefix(k, "max_") {
			if v > s.Probes[k] {
				s.Probes[k] = v
			}
		} else {
			s.Probes[k] += v
		}
	}
	for k, v := range o.ByEngine {
		s.ByEngine[k] += v
	}
	for k, v := range o.OpKinds {
		s.OpKinds[k] += v
	}
	for k := range o.ModelStates {
		s.ModelStates[k] = true
	}
	for k, v := range o.FailKinds {
		s.FailKinds[k] += v
	}
}

type RunOpts struct {
	Health      bool // oracle 6.4 after every commit on every node
	Readback    bool // model vs ledger through ReadStored after every commit (primary)
	StopAtFirst bool
	Only        string // if set, stop at the first violation of this property (others are recorded and the run continues)
	Verbose     bool
}

var chainLog *os.File // set by `sim selftest -log`: one line per execution

type Runner struct {
	P     *Plan
	Opts  RunOpts
	Model *Model
	Nodes []*Node
	Bound map[string]uint64 // committed uuid bindings
	Used  map[uint64]string
	UsedCap map[string]string
	Minted    map[uint64]bool // uuids handed out in committed executions (primary)
	Destroyed map[uint64]bool
	V     []Violation
	Stats *RunStats
	stop  bool
	OnPrimary func(i int, req ExecReq, t *Transcript) // observer of the primary's executions (corpus generation)
	Chain string // hash chain over every execution of every node (determinism self-test)
}

func NewRunner(p *Plan, opts RunOpts) *Runner {
	r := &Runner{P: p, Opts: opts, Model: NewModel(p.NAccts), Bound: map[string]uint64{}, Used: map[uint64]string{}, UsedCap: map[string]string{}, Minted: map[uint64]bool{}, Destroyed: map[uint64]bool{}, Stats: NewRunStats()}
	for _, nc := range p.Nodes {
		r.Nodes = append(r.Nodes, NewNode(nc, NewWorld()))
	}
	for _, s := range p.Steps {
		if s.Kind == "deploy" && s.Name == "VI" {
			r.Model.Ctr.VI = true
		}
	}
	return r
}

func (r *Runner) violate(prop, oracle string, step int, node string, key string, f string, a ...any) {
	v := Violation{Property: prop, Oracle: oracle, Step: step, Node: node, Detail: fmt.Sprintf(f, a...), Key: key}
	for _, n := range r.Nodes {
		if n.Cfg.Name == node {
			v.Engine = n.Cfg.Engine
		}
	}
	r.V = append(r.V, v)
	if r.Opts.Verbose {
		fmt.Println("  VIOL", v.String())
	}
	if r.Opts.StopAtFirst || r.Opts.Only == prop {
		r.stop = true
	}
}

func RunPlan(p *Plan, opts RunOpts) *Runner {
	r := NewRunner(p, opts)
	r.Stats.NumCPU[fmt.Sprintf("numcpu=%d,gomaxprocs=%d", goruntime.NumCPU(), goruntime.GOMAXPROCS(0))]++
	for i := range p.Steps {
		if r.stop {
			break
		}
		r.step(i)
	}
	return r
}

// ---------------------------------------------------------------------------------------------
// failure kinds -> acceptable innermost Cadence error types (the error *kinds* the properties name)

var failTypes = map[string][]string{
	FOverwrite: {"interpreter.OverwriteError", "*interpreter.OverwriteError"},
	FTypeMis:   {"interpreter.ForceCastTypeMismatchError", "*interpreter.ForceCastTypeMismatchError", "interpreter.StoredValueTypeMismatchError", "*interpreter.StoredValueTypeMismatchError"},
	FNil:       {"interpreter.ForceNilError", "*interpreter.ForceNilError"},
	// (an Int index that does not fit in 64 bits fails with the overflow error: a failure of the index conversion)
	FIndex:     {"interpreter.ArrayIndexOutOfBoundsError", "*interpreter.ArrayIndexOutOfBoundsError", "interpreter.OverflowError", "*interpreter.OverflowError"},
	FSlice:     {"interpreter.ArraySliceIndicesError", "*interpreter.ArraySliceIndicesError", "interpreter.InvalidSliceIndexError", "*interpreter.InvalidSliceIndexError", "interpreter.OverflowError", "*interpreter.OverflowError"},
	FPanic:     {"stdlib.PanicError", "*stdlib.PanicError"},
	FAssert:    {"stdlib.AssertionError", "*stdlib.AssertionError"},
	FCondition: {"interpreter.ConditionError", "*interpreter.ConditionError"},
	FDupAttach: {"interpreter.DuplicateAttachmentError", "*interpreter.DuplicateAttachmentError"},
	FCtExists:   {"*errors.errorString", "errors.DefaultUserError", "*errors.DefaultUserError"},
	FCtMissing:  {"*errors.errorString", "errors.DefaultUserError", "*errors.DefaultUserError"},
	FCtInvalid:  {"*sema.CheckerError*", "parser.Error*", "*errors.errorString", "*stdlib.InvalidContractDeploymentError*", "errors.DefaultUserError"},
	FCtIncompat: {"*stdlib.ContractUpdateError*"},
	FCtRemoval:  {"*stdlib.ContractRemovalError"},
	FChecker:    {"*sema.CheckerError*"},
	FCapAddr:    {"*interpreter.CapabilityAddressPublishingError", "interpreter.CapabilityAddressPublishingError"},
	"invalidRef": {"interpreter.InvalidatedResourceReferenceError", "*interpreter.InvalidatedResourceReferenceError", "interpreter.DereferenceError", "*interpreter.DereferenceError"},
}

func failTypeOK(kind, errType string) bool {
	for _, t := range failTypes[kind] {
		if t == errType || (strings.HasSuffix(t, "*") && strings.HasPrefix(errType, strings.TrimSuffix(t, "*"))) {
			return true
		}
	}
	return false
}

// ---------------------------------------------------------------------------------------------
// uuid placeholder unification

const phOpen, phClose = "‹", "›"

func (r *Runner) matchOne(exp, act string, tent map[string]uint64) bool {
	if strings.HasPrefix(exp, "~") {
		// set / multiset observation: placeholders must be bound by now; both sides are compared in natural order
		e := subst(exp, r.Bound, tent)
		k := strings.Index(e, "=[")
		if k < 0 || !strings.HasSuffix(e, "]") {
			return e == act
		}
		parts := splitTop(e[k+2 : len(e)-1])
		naturalSort(parts)
		return e[:k+2]+strings.Join(parts, ", ")+"]" == act
	}
	for {
		i := strings.Index(exp, phOpen)
		if i < 0 {
			return exp == act
		}
		if !strings.HasPrefix(act, exp[:i]) {
			return false
		}
		j := strings.Index(exp, phClose)
		name := exp[i+len(phOpen) : j]
		act = act[i:]
		exp = exp[j+len(phClose):]
		d := 0
		for d < len(act) && act[d] >= '0' && act[d] <= '9' {
			d++
		}
		if d == 0 {
			return false
		}
		val, _ := strconv.ParseUint(act[:d], 10, 64)
		act = act[d:]
		if b, ok := r.Bound[name]; ok {
			if b != val {
				return false
			}
		} else if b, ok := tent[name]; ok {
			if b != val {
				return false
			}
		} else {
			tent[name] = val
		}
	}
}

func subst(exp string, bound, tent map[string]uint64) string {
	for {
		i := strings.Index(exp, phOpen)
		if i < 0 {
			return exp
		}
		j := strings.Index(exp, phClose)
		name := exp[i+len(phOpen) : j]
		v, ok := tent[name]
		if !ok {
			v, ok = bound[name]
		}
		rep := "<unbound:" + name + ">"
		if ok {
			rep = strconv.FormatUint(v, 10)
		}
		exp = exp[:i] + rep + exp[j+len(phClose):]
	}
}

// canonEvent renders a non-Obs event the way the model predicts events.
func canonEvents(t *Transcript) []string {
	var out []string
	for _, e := range t.EventVals {
		out = append(out, Canon(e))
	}
	return out
}

// ---------------------------------------------------------------------------------------------

func (r *Runner) signers() []uint64 {
	var s []uint64
	for i := 1; i <= r.P.NAccts; i++ {
		s = append(s, uint64(i))
	}
	return s
}

func (r *Runner) step(i int) {
	s := &r.P.Steps[i]
	r.Stats.Steps++
	switch s.Kind {
	case "restart":
		for _, n := range r.Nodes[1:] {
			if s.Node == "" || s.Node == n.Cfg.Name {
				n.Restart()
				r.Stats.Restarts++
			}
		}
		return
	case "evict":
		for _, n := range r.Nodes[1:] {
			if s.Node == "" || s.Node == n.Cfg.Name {
				if s.Loc == "" {
					n.H.EvictAll()
				} else {
					var a uint64
					var name string
					parts := strings.SplitN(s.Loc, ".", 2)
					fmt.Sscanf(parts[0], "0x%x", &a)
					name = parts[1]
					n.H.Evict(addrLoc(a, name))
				}
				r.Stats.Evictions++
			}
		}
		return
	case "block":
		for _, n := range r.Nodes {
			n.H.W.Height++
		}
		r.Stats.SimBlocks++
		return
	}

	var req ExecReq
	var pred *Pred
	var next *Model
	modelled := false
	switch s.Kind {
	case "deploy":
		req = ExecReq{Kind: "tx", Source: DeployTx(s.Name, s.Source), Signers: s.Signers}
	case "tx":
		req = ExecReq{Kind: "tx", Source: TxSource(s.Ops, r.P.NAccts, r.Model), Signers: r.signers()}
		pred, next = r.Model.Predict(s.Ops, false)
		modelled = true
	case "script":
		req = ExecReq{Kind: "script", Source: ScriptSource(s.Ops, r.P.NAccts, r.Model)}
		pred, next = r.Model.Predict(s.Ops, true)
		modelled = true
		r.Stats.Scripts++
	case "rawtx":
		req = ExecReq{Kind: "tx", Source: s.Source, Signers: s.Signers, Args: s.Args}
	case "rawscript":
		req = ExecReq{Kind: "script", Source: s.Source, Args: s.Args}
		r.Stats.Scripts++
	default:
		panic("harness: unknown step kind " + s.Kind)
	}
	req.Salt = uint64(i)
	for _, o := range s.Ops {
		r.Stats.OpKinds[o.K]++
	}

	// --- primary
	prim := r.Nodes[0]
	t0 := prim.Exec(req, true)
	prim.lastT, prim.lastStep = t0, i
	if r.OnPrimary != nil {
		r.OnPrimary(i, req, t0)
	}
	r.account(prim, t0)
	r.invariants(i, prim, s, t0, false)
	tent := map[string]uint64{}
	if modelled {
		r.checkModel(i, s, pred, t0, tent)
	} else if s.IsScenario() {
		r.checkScenario(i, s, t0)
	} else if s.Kind == "deploy" && t0.Class != "ok" {
		panic(fmt.Sprintf("harness: deploy of %s failed: %v", s.Name, t0.Err))
	}
	if t0.Committed {
		r.Stats.Committed++
		for _, c := range t0.Trace {
			if c.Kind == "GenerateUUID" {
				if u, err := strconv.ParseUint(c.Res, 10, 64); err == nil {
					r.Minted[u] = true
				}
			}
		}
		for k, e := range t0.EventVals {
			if strings.HasSuffix(t0.EventIDs[k], ".ResourceDestroyed") {
				vals := getCompositeFieldValues(e)
				fields := getCompositeTypeFields(e.EventType)
				for fi, f := range fields {
					if f.Identifier == "uuid" && fi < len(vals) {
						u, _ := strconv.ParseUint(vals[fi].String(), 10, 64)
						if r.Destroyed[u] {
							r.violate("C02", "conservation.destroyed-twice", i, prim.Cfg.Name, "destroyed-twice", "uuid %d reported destroyed twice", u)
						}
						r.Destroyed[u] = true
					}
				}
			}
		}
	}
	if modelled && t0.Class == "ok" && pred.Fail == "" && s.Kind == "tx" {
		r.Model = next
		for k, v := range tent {
			if strings.HasPrefix(k, "c") {
				// capability ids are per account: "issued IDs are fresh"
				var n int
				fmt.Sscanf(k, "c%d", &n)
				if ctl := r.Model.Caps.Ctls[n]; ctl != nil {
					key := fmt.Sprintf("%d/%d", ctl.Acct, v)
					if other, dup := r.UsedCap[key]; dup && other != k {
						r.violate("C25", "capability-id.fresh", i, prim.Cfg.Name, "cap-id-reuse", "capability id %d issued in account %d for %s was already issued for %s", v, ctl.Acct, k, other)
					}
					r.UsedCap[key] = k
				}
				r.Bound[k] = v
				continue
			}
			if other, dup := r.Used[v]; dup && other != k {
				r.violate("C02", "uuid.fresh", i, prim.Cfg.Name, "uuid-reuse", "uuid %d of new resource %s already belongs to %s", v, k, other)
			}
			r.Bound[k] = v
			r.Used[v] = k
		}
		r.Stats.ModelStates[r.Model.StateHash()] = true
	}

	// --- shadows
	for _, n := range r.Nodes[1:] {
		if r.stop {
			return
		}
		for _, ns := range s.Noise[n.Cfg.Name] {
			r.noise(i, n, ns)
		}
		for _, at := range s.Attempts[n.Cfg.Name] {
			r.attempt(i, n, s, req, at, t0)
		}
		t := n.Exec(req, true)
		r.account(n, t)
		r.invariants(i, n, s, t, false)
		if s.IsScenario() {
			// the hand-written expectation holds on every engine, not only on the primary's
			r.checkScenarioOn(i, s, t, n.Cfg.Name)
		}
		r.compare(i, s, prim, t0, n, t)
	}

	// --- post-commit oracles
	if t0.Committed {
		d0 := prim.H.W.LedgerDigest()
		for _, n := range r.Nodes[1:] {
			if d := n.H.W.LedgerDigest(); d != d0 {
				prop := "C33"
				if n.Cfg.Engine != prim.Cfg.Engine {
					prop = "C34"
				}
				r.violate(prop, "replica.ledger", i, n.Cfg.Name, "ledger-diverged", "committed ledger differs from primary (%s vs %s): %s", n.Cfg.Engine, prim.Cfg.Engine, ledgerDiff(prim.H.W, n.H.W))
			}
		}
		if r.Opts.Health {
			for _, n := range r.Nodes {
				r.health(i, n)
				if n.Cfg.Engine == prim.Cfg.Engine && n != prim {
					break // ledgers are byte-identical (checked above); one per engine is enough
				}
			}
		}
		if r.Opts.Readback && modelled {
			r.readback(i)
		}
		r.probes(prim)
	}
}

func addrLoc(a uint64, name string) common.AddressLocation {
	return common.AddressLocation{Address: addr(a), Name: name}
}

func (r *Runner) account(n *Node, t *Transcript) {
	// With AtreeValidationEnabled (a debug configuration) atree's validation walks Go maps of slabs: the ORDER of the register reads
	// and of the metering calls it causes varies from run to run (their multiset, all results and all writes do not). Those nodes
	// contribute their outcome, writes and metering totals to the chain, the others also their complete call and gauge sequences.
	seq := t.TraceDigest(false) + "|" + t.GaugeDigest
	if n.Cfg.AtreeValidation {
		seq = fmt.Sprintf("%d|%d|%d", len(t.Trace), t.MemN, t.CompN)
	}
	hc := sha256.Sum256([]byte(r.Chain + "|" + n.Cfg.Name + "|" + t.Summary() + "|" + t.WritesDigest() + "|" + seq + "|" + fmt.Sprint(t.Fired)))
	r.Chain = hex.EncodeToString(hc[:12])
	if chainLog != nil {
		sh := sha256.Sum256([]byte(t.Summary()))
		fmt.Fprintf(chainLog, "%s class=%s type=%s summary=%x writes=%s trace=%s gauge=%s fired=%v\n", n.Cfg.Name, t.Class, t.ErrType, sh[:6], t.WritesDigest(), t.TraceDigest(false), t.GaugeDigest, t.Fired)
		if os.Getenv("VERIF_CHAINLOG_TRACES") != "" {
			for i, c := range t.Trace {
				fmt.Fprintf(chainLog, "   T%d %s\n", i, clip(c.String(), 200))
			}
			for i, g := range t.Gauge {
				fmt.Fprintf(chainLog, "   G%d %x\n", i, g)
			}
		}
	}
	r.Stats.Execs++
	r.Stats.ByEngine[n.Cfg.Engine]++
	r.Stats.GaugeCalls += t.GaugeN
	r.Stats.HostCalls += len(t.Trace)
	for _, f := range t.Fired {
		// "site#nth/mode@..."
		mode := f[strings.Index(f, "/")+1 : strings.Index(f, "@")]
		site := f[:strings.Index(f, "#")]
		switch {
		case site == "mem":
			r.Stats.FaultsFired["F3_memory_limit"]++
		case site == "comp" || site == "gauge":
			if strings.HasSuffix(f, ":mem") {
				r.Stats.FaultsFired["F3_memory_limit"]++
			} else {
				r.Stats.FaultsFired["F4_computation_limit"]++
			}
		case mode == "panic" || mode == "panicstr":
			r.Stats.FaultsFired["F2_host_panic"]++
		default:
			r.Stats.FaultsFired["F1_host_error"]++
		}
		if site == "SetValue" || (t.EndSeq >= 0 && t.FiredSeq > t.EndSeq) {
			r.Stats.Probes["fault_in_commit_phase"]++
		}
	}
}

// invariants that hold for every execution on every node.
func (r *Runner) invariants(i int, n *Node, s *Step, t *Transcript, faulted bool) {
	name := n.Cfg.Name
	// C01 / 6.5: no internal errors, no escaping panics without an injected host fault
	hostFault := false
	for _, f := range t.Fired {
		if !strings.Contains(f, "@g") {
			hostFault = true
		}
	}
	if !hostFault {
		if t.Class == "internal" || t.Class == "escaped" || t.Class == "unknown" {
			full := ""
			if r.Opts.Verbose && t.Err != nil {
				full = "\n" + clip(t.Err.Error(), 2500)
			}
			r.violate("C01", "no-internal-error", i, name, "internal:"+t.ErrType, "execution ended with %s error %s: %s %s%s", t.Class, t.ErrType, t.ErrMsg, firstLine(t.Escaped), full)
		}
	}
	// C48: event conformance
	for _, is := range t.EventIssues {
		r.violate("C48", "event.conformance", i, name, "event-conformance", "%s", is)
	}
	// C24: write discipline
	isScript := t.Kind == "script"
	switch {
	case isScript:
		if len(t.Writes) > 0 && !tempCommitWrites(t) {
			r.violate("C24", "script.no-writes", i, name, "script-write", "script issued %d register writes, first %s at seq %d", len(t.Writes), t.Writes[0].Key, t.Writes[0].Seq)
		} else if len(t.Writes) > 0 {
			r.violate("C24", "script.no-writes", i, name, "temp-commit-write", "script issued %d register writes in a temporary storage commit (storage.used / storage.capacity / Account(payer:))", len(t.Writes))
		}
	case t.Class != "ok":
		if len(t.Writes) > 0 && tempCommitWrites(t) {
			r.violate("C24", "failed-tx.no-writes", i, name, "temp-commit-write", "failed transaction issued %d register writes in a temporary storage commit (storage.used / storage.capacity / Account(payer:))", len(t.Writes))
		}
		if len(t.Writes) > 0 && !tempCommitWrites(t) {
			first := t.Writes[0]
			for _, w := range t.Writes {
				if !tempCommitWrite(t, w) {
					first = w
					break
				}
			}
			// the only legitimate register writes of a failed transaction: the failure is the failure of a register write
			// itself (host fault at SetValue), i.e. the commit had begun and the host discards the partial write set
			writeFailed := false
			gaugeInCommit := false
			for _, f := range t.Fired {
				if strings.HasSuffix(f, ":SetValue") {
					writeFailed = true
				}
				if strings.Contains(f, "@g") && t.EndSeq >= 0 && first.Seq > t.EndSeq {
					gaugeInCommit = true
				}
			}
			onlyStored := true
			for _, w := range t.Writes {
				if !strings.HasSuffix(w.Key, "|73746f726564") { // "stored": the account storage register
					onlyStored = false
				}
			}
			lastWrite := t.Writes[len(t.Writes)-1].Seq
			switch {
			case writeFailed && t.EndSeq >= 0 && first.Seq > t.EndSeq:
			case n.Cfg.AtreeValidation && t.EndSeq >= 0 && first.Seq > t.EndSeq && t.FiredSeq > lastWrite:
				// debug configuration: with atree validation enabled the runtime re-reads and decodes the committed slabs
				// after the commit; a metering limit reached there fails the transaction after all its writes
				r.Stats.Probes["limit_in_post_commit_validation"]++
			case gaugeInCommit && onlyStored:
				// upstream writes the account-storage register of new accounts before the commit-time metering
				r.violate("C24", "failed-tx.no-writes", i, name, "commit-metering-after-stored-register", "transaction failed by a metering limit during commit after %d account storage register write(s) (%s)", len(t.Writes), first.Key)
			default:
				r.violate("C24", "failed-tx.no-writes", i, name, "failed-tx-write", "failed transaction (%s %s) issued %d register writes, first %s at seq %d (END at %d, fault %v at seq %d)", t.Class, t.ErrType, len(t.Writes), first.Key, first.Seq, t.EndSeq, t.Fired, t.FiredSeq)
			}
		}
	default:
		if len(t.Writes) > 0 {
			lastProg := t.EndSeq
			for k, c := range t.Trace {
				if c.Kind == "EmitEvent" || c.Kind == "ProgramLog" {
					if k > lastProg {
						lastProg = k
					}
				}
			}
			for _, w := range t.Writes {
				if w.Seq < lastProg && !tempCommitWrite(t, w) {
					r.violate("C24", "ok-tx.writes-last", i, name, "early-write", "successful transaction wrote %s at seq %d before its code finished (last program effect at seq %d)", w.Key, w.Seq, lastProg)
					break
				}
				if w.Seq < lastProg {
					r.violate("C24", "ok-tx.writes-last", i, name, "temp-commit-write", "successful transaction wrote %s at seq %d, before its code finished, in a temporary storage commit (storage.used / storage.capacity / Account(payer:))", w.Key, w.Seq)
					break
				}
			}
		}
	}
}

// tempCommitWrite: a write belonging to a temporary storage commit made on behalf of
// storage.used / storage.capacity / Account(payer:) (see known findings, C24).
func tempCommitWrite(t *Transcript, w Write) bool {
	if t.EndSeq >= 0 && w.Seq > t.EndSeq {
		return false // a write of the final commit
	}
	for k := w.Seq + 1; k < len(t.Trace); k++ {
		switch t.Trace[k].Kind {
		case "SetValue":
			if strings.HasPrefix(t.Trace[k].Res, "!") {
				return true // the temporary commit was cut short by an injected fault at one of its register writes
			}
			continue
		case "GetStorageUsed", "GetStorageCapacity", "CreateAccount":
			return true
		default:
			return false
		}
	}
	return false
}

func tempCommitWrites(t *Transcript) bool {
	for _, w := range t.Writes {
		if !tempCommitWrite(t, w) {
			return false
		}
	}
	return true
}

func (r *Runner) checkModel(i int, s *Step, pred *Pred, t *Transcript, tent map[string]uint64) {
	name := r.Nodes[0].Cfg.Name
	prop := "C22"
	if len(s.Ops) > 0 {
		prop = s.Ops[0].Property()
	}
	if pred.FailOp >= 0 {
		prop = s.Ops[pred.FailOp].Property()
		r.Stats.PredictedFails++
		r.Stats.FailKinds[pred.Fail]++
	}
	// outcome
	if pred.Fail == "" {
		if t.Class != "ok" {
			// attribute to the family of the op that was running: count END-less observation prefix
			full := ""
			if r.Opts.Verbose {
				full = "\n" + t.Err.Error()
			}
			r.violate(r.opPropAt(s, pred, t), "model.outcome", i, name, "unexpected-failure", "model predicts success, execution failed: %s %s: %s\n%s%s", t.Class, t.ErrType, t.ErrMsg, progSnippet(s), full)
			return
		}
	} else {
		if t.Class == "ok" {
			r.violate(prop, "model.outcome", i, name, "unexpected-success:"+pred.Fail, "model predicts failure %q at op %d (%s), execution succeeded", pred.Fail, pred.FailOp, s.Ops[pred.FailOp].K)
			return
		}
		if t.Class != "user" {
			r.violate(prop, "model.outcome", i, name, "wrong-class:"+pred.Fail, "model predicts user failure %q at op %d, got class %s (%s: %s)", pred.Fail, pred.FailOp, t.Class, t.ErrType, t.ErrMsg)
			return
		}
		if !failTypeOK(pred.Fail, t.ErrType) {
			r.violate(prop, "model.error-kind", i, name, "wrong-error:"+pred.Fail, "model predicts failure %q at op %d (%s), got %s: %s", pred.Fail, pred.FailOp, s.Ops[pred.FailOp].K, t.ErrType, t.ErrMsg)
		}
	}
	// observations (prefix up to the failure)
	if len(t.Obs) != len(pred.Obs) {
		k := 0
		for k < len(t.Obs) && k < len(pred.Obs) && r.matchOne(pred.Obs[k], t.Obs[k], map[string]uint64{}) {
			k++
		}
		exp, act := "<none>", "<none>"
		if k < len(pred.Obs) {
			exp = pred.Obs[k]
		}
		if k < len(t.Obs) {
			act = t.Obs[k]
		}
		r.violate(r.obsProp(s, exp, act), "model.obs", i, name, "obs-count", "%d observations, model predicts %d; first difference at #%d: expected %s got %s", len(t.Obs), len(pred.Obs), k, exp, act)
		return
	}
	for k := range pred.Obs {
		if !r.matchOne(pred.Obs[k], t.Obs[k], tent) {
			r.violate(r.obsProp(s, pred.Obs[k], t.Obs[k]), "model.obs", i, name, "obs-mismatch:"+obsTag(pred.Obs[k]), "observation #%d: expected %s got %s", k, subst(pred.Obs[k], r.Bound, tent), t.Obs[k])
			return
		}
	}
	// events (multiset)
	var exp []string
	for _, e := range pred.Events {
		exp = append(exp, subst(e, r.Bound, tent))
	}
	act := canonEvents(t)
	var act2 []string
	for k, e := range act {
		if strings.HasSuffix(t.EventIDs[k], ".World.End") {
			continue
		}
		// the standard capability / inbox events are not modelled (they are still compared between replicas)
		if strings.HasPrefix(t.EventIDs[k], "flow.") && !strings.HasPrefix(t.EventIDs[k], "flow.AccountContract") {
			continue
		}
		act2 = append(act2, e)
	}
	es, as := append([]string{}, exp...), append([]string{}, act2...)
	sort.Strings(es)
	sort.Strings(as)
	if strings.Join(es, "\n") != strings.Join(as, "\n") {
		ep := "C48"
		d := diffFirst(es, as)
		if strings.Contains(d, "ResourceDestroyed") || strings.Contains(d, "Made(") {
			ep = "C02"
			if strings.Contains(d, "World.A.") || strings.Contains(d, "World.B.") {
				ep = "C49"
			}
		}
		r.violate(ep, "model.events", i, name, "events-mismatch", "events differ from model: %s", d)
	}
}

func obsTag(o string) string {
	if k := strings.Index(o, "="); k >= 0 {
		o = o[:k]
	}
	return strings.TrimRight(o, "0123456789")
}

// obsProp attributes an observation mismatch to the property of the op family that produced the tag.
func (r *Runner) obsProp(s *Step, exp, act string) string {
	tag := obsTag(exp)
	if exp == "<none>" {
		tag = obsTag(act)
	}
	tag = strings.TrimPrefix(tag, "~")
	for _, o := range s.Ops {
		if code := o.Code(0, r.Model); strings.Contains(code, `"`+tag) || strings.Contains(code, `"~`+tag) {
			return o.Property()
		}
	}
	if len(s.Ops) > 0 {
		return s.Ops[0].Property()
	}
	return "C22"
}

func (r *Runner) opPropAt(s *Step, pred *Pred, t *Transcript) string {
	// the op that failed is the one after the last matching observation; approximate by counting obs per op
	cnt := 0
	for _, o := range s.Ops {
		sc := r.Model.Clone()
		p := &Pred{}
		sc.Apply(o, p)
		_ = sc
		cnt += len(p.Obs)
		if cnt > len(t.Obs) {
			return o.Property()
		}
	}
	if len(s.Ops) > 0 {
		return s.Ops[len(s.Ops)-1].Property()
	}
	return "C22"
}

func progSnippet(s *Step) string {
	var ks []string
	for _, o := range s.Ops {
		ks = append(ks, o.K)
	}
	return "ops: " + strings.Join(ks, ", ")
}

func diffFirst(exp, act []string) string {
	em := map[string]int{}
	for _, e := range exp {
		em[e]++
	}
	for _, a := range act {
		em[a]--
	}
	var missing, extra []string
	for k, v := range em {
		if v > 0 {
			missing = append(missing, fmt.Sprintf("%dx %s", v, k))
		} else if v < 0 {
			extra = append(extra, fmt.Sprintf("%dx %s", -v, k))
		}
	}
	sort.Strings(missing)
	sort.Strings(extra)
	return fmt.Sprintf("missing=%v extra=%v", missing, extra)
}

func ledgerDiff(a, b *World) string {
	var out []string
	for _, k := range a.LedgerKeys() {
		if bv, ok := b.Ledger[k]; !ok {
			out = append(out, fmt.Sprintf("only-primary %x", k))
		} else if string(bv) != string(a.Ledger[k]) {
			out = append(out, fmt.Sprintf("differs %x", k))
		}
	}
	for _, k := range b.LedgerKeys() {
		if _, ok := a.Ledger[k]; !ok {
			out = append(out, fmt.Sprintf("only-shadow %x", k))
		}
	}
	if len(out) > 4 {
		out = append(out[:4], fmt.Sprintf("... %d more", len(out)-4))
	}
	return strings.Join(out, "; ")
}

// compare: oracle 6.2 between the primary's transcript and a shadow's clean execution.
func (r *Runner) compare(i int, s *Step, prim *Node, t0 *Transcript, n *Node, t *Transcript) {
	sameEngine := prim.Cfg.Engine == n.Cfg.Engine
	prop := "C34"
	if sameEngine {
		prop = "C33"
	}
	if s.SameEngineOnly && !sameEngine {
		// a step whose outcome may legitimately depend on the engine (e.g. a recursion a few frames below the call-depth limit):
		// compared with the first node of the same engine only
	} else if a, b := t0.Summary(), t.Summary(); a != b {
		r.violate(prop, "replica.outcome", i, n.Cfg.Name, "outcome-diverged", "outcome differs between %s(%s) and %s(%s):\n%s", prim.Cfg.Name, prim.Cfg.Engine, n.Cfg.Name, n.Cfg.Engine, lineDiff(a, b))
		return
	}
	// reference node of the same engine
	ref, tref := prim, t0
	if !sameEngine {
		ref = nil
		for _, m := range r.Nodes[1:] {
			if m == n {
				break
			}
			if m.Cfg.Engine == n.Cfg.Engine {
				ref = m
				break
			}
		}
		if ref == nil {
			n.lastT, n.lastStep = t, i
			return
		}
		tref = ref.lastT
	}
	n.lastT, n.lastStep = t, i
	if tref == nil {
		return
	}
	if s.SameEngineOnly && !sameEngine {
		if a, b := tref.Summary(), t.Summary(); a != b {
			r.violate("C33", "replica.outcome", i, n.Cfg.Name, "outcome-diverged", "outcome differs between %s(%s) and %s(%s):\n%s", ref.Cfg.Name, ref.Cfg.Engine, n.Cfg.Name, n.Cfg.Engine, lineDiff(a, b))
			return
		}
	}
	if a, b := tref.WritesDigest(), t.WritesDigest(); a != b {
		r.violate("C33", "replica.writes", i, n.Cfg.Name, "writes-order", "register write sequence differs between same-engine nodes %s and %s (%d vs %d writes)", ref.Cfg.Name, n.Cfg.Name, len(tref.Writes), len(t.Writes))
	}
	if ref.Cfg.Cache == "cold" && n.Cfg.Cache == "cold" && ref.Cfg.AtreeValidation == n.Cfg.AtreeValidation {
		if tref.GaugeDigest != t.GaugeDigest {
			key := "gauge-diverged"
			if n.Cfg.AtreeValidation && sameMultiset(tref.Gauge, t.Gauge) {
				key = "gauge-order-under-atree-validation"
			}
			r.violate("C31", "replica.gauge", i, n.Cfg.Name, key, "metering sequence differs between same-class nodes %s (%s) and %s (%s)%s", ref.Cfg.Name, tref.GaugeDigest, n.Cfg.Name, t.GaugeDigest, gaugeDiff(tref, t))
		}
		// effectful callbacks (everything except ledger/code reads) must come in the same order with the same arguments
		if a, b := effectTrace(tref), effectTrace(t); a != b {
			r.violate("C33", "replica.effects", i, n.Cfg.Name, "effects-diverged", "sequence of effectful host calls differs between same-class nodes %s and %s:\n%s", ref.Cfg.Name, n.Cfg.Name, lineDiff(a, b))
		}
	}
}

// effectTrace: the callbacks whose order is observable by the host as an effect (not reads of ledger, code or programs).
func effectTrace(t *Transcript) string {
	var sb strings.Builder
	for _, c := range t.Trace {
		switch c.Kind {
		case "GetValue", "ValueExists", "GetOrLoadProgram", "GetAccountContractCode", "GetCode", "ResolveLocation", "MinimumRequiredVersion", "GetAccountContractNames":
			continue
		}
		sb.WriteString(c.String())
		sb.WriteString("\n")
	}
	return sb.String()
}

func sameMultiset(a, b []uint64) bool {
	if len(a) == 0 || len(a) != len(b) {
		return false
	}
	m := map[uint64]int{}
	for _, x := range a {
		m[x]++
	}
	for _, x := range b {
		m[x]--
	}
	for _, v := range m {
		if v != 0 {
			return false
		}
	}
	return true
}

func gaugeDiff(a, b *Transcript) string {
	if len(a.Gauge) == 0 || len(b.Gauge) == 0 {
		return ""
	}
	for k := 0; k < len(a.Gauge) && k < len(b.Gauge); k++ {
		if a.Gauge[k] != b.Gauge[k] {
			return fmt.Sprintf("; first difference at gauge call %d: %x vs %x", k, a.Gauge[k], b.Gauge[k])
		}
	}
	return fmt.Sprintf("; one is a prefix of the other (%d vs %d calls)", len(a.Gauge), len(b.Gauge))
}

func traceDiff(a, b *Transcript) string {
	for k := 0; k < len(a.Trace) && k < len(b.Trace); k++ {
		if a.Trace[k] != b.Trace[k] {
			return fmt.Sprintf("first difference at call %d: %s vs %s", k, a.Trace[k], b.Trace[k])
		}
	}
	return fmt.Sprintf("one is a prefix of the other (%d vs %d calls)", len(a.Trace), len(b.Trace))
}

func lineDiff(a, b string) string {
	al, bl := strings.Split(a, "\n"), strings.Split(b, "\n")
	for k := 0; k < len(al) || k < len(bl); k++ {
		x, y := "<end>", "<end>"
		if k < len(al) {
			x = al[k]
		}
		if k < len(bl) {
			y = bl[k]
		}
		if x != y {
			return fmt.Sprintf("line %d:\n    A: %s\n    B: %s", k, clip(x, 400), clip(y, 400))
		}
	}
	return "<no difference>"
}

func clip(s string, n int) string {
	if len(s) > n {
		return s[:n] + "…"
	}
	return s
}

// attempt: a faulted execution of the step on a shadow node (oracles 6.3, C28, C24, C30).
func (r *Runner) attempt(i int, n *Node, s *Step, req ExecReq, at Attempt, t0 *Transcript) {
	// resolve relative fault positions against the clean execution of this step on the reference node of the same engine
	ref := t0
	for _, m := range r.Nodes {
		if m == n {
			break
		}
		if m.Cfg.Engine == n.Cfg.Engine && m.lastT != nil && m.lastStep == i {
			ref = m.lastT
			break
		}
	}
	for k := range at.Faults {
		f := &at.Faults[k]
		if f.Nth >= 0 {
			continue
		}
		total := 0
		switch f.Site {
		case "*":
			total = len(ref.Trace)
		case "gauge":
			total = ref.GaugeN
		case "mem":
			total = ref.MemN
		case "comp":
			total = ref.CompN
		default:
			for _, c := range ref.Trace {
				if c.Kind == f.Site {
					total++
				}
			}
		}
		f.Nth = int(f.Frac * float64(total))
		if total == 0 {
			f.Nth = 0
		}
	}
	req.Faults = at.Faults
	t := n.Exec(req, false)
	r.account(n, t)
	if len(t.Fired) == 0 {
		r.Stats.NotFired++
		return
	}
	// An attempt that the runtime reports as SUCCESSFUL although a host fault fired (C28 judges the swallowing) is a transaction a
	// host would commit: its register writes, applied to this node's ledger, must leave committed storage healthy (C23).
	if t.Class == "ok" && req.Kind == "tx" && r.Opts.Health {
		w := n.H.W.Clone()
		for _, wr := range t.Writes {
			parts := strings.SplitN(wr.Key, "|", 2)
			ob, _ := hex.DecodeString(parts[0])
			kb, _ := hex.DecodeString(parts[1])
			vb, _ := hex.DecodeString(wr.Val)
			if len(vb) == 0 {
				delete(w.Ledger, lkey(ob, kb))
			} else {
				w.Ledger[lkey(ob, kb)] = vb
			}
		}
		r.Stats.HealthChecks++
		if rep := CheckHealth(w); rep.Err != "" {
			r.violate("C23", "ledger.health-after-swallowed-fault", i, n.Cfg.Name, "health-after-fault", "a transaction reported as successful although host fault %v fired would commit an unhealthy ledger: %s", t.Fired, rep.Err)
		}
	}
	r.Stats.AbortedAttempts++
	r.invariants(i, n, s, t, true)
	r.checkFaulted(i, n, t, "")
	if len(t.Writes) > 0 {
		r.Stats.Probes["abort_with_partial_commit_writes"]++
	}
	// C26 under host faults: a tryUpdate that absorbed a fault and reports "failed" must have changed nothing
	if t.Class == "ok" && t.FiredSeq >= 0 && t.RegionAt(t.FiredSeq) == "TRY" {
		r.Stats.Probes["fault_absorbed_by_tryUpdate"]++
		failedTry := 0
		for _, o := range t.Obs {
			if o == "try=nil" {
				failedTry++
			}
		}
		tries := 0
		for _, o := range s.Ops {
			if o.K == "ct.tryUpdate" {
				tries++
			}
		}
		if tries == 1 && failedTry == 1 && len(s.Ops) > 0 {
			for _, cu := range t.CodeUpdates {
				for _, o := range s.Ops {
					// only if no other lifecycle operation of this transaction targets the same contract (a later
					// `update` of the same name legitimately sends the host a code update)
					others := 0
					for _, o2 := range s.Ops {
						if o2.A == o.A && o2.S == o.S && (o2.K == "ct.add" || o2.K == "ct.update" || o2.K == "ct.remove" || o2.K == "ct.tryUpdate") {
							others++
						}
					}
					if o.K == "ct.tryUpdate" && others == 1 && strings.Contains(cu, fmt.Sprintf("%s.%s ", addr(uint64(o.A)).Hex(), o.S)) {
						r.violate("C26", "tryUpdate.failed-changes-nothing", i, n.Cfg.Name, "tryUpdate-failed-but-code-updated:"+t.Trace[t.FiredSeq].Kind,
							"tryUpdate of %s reported failure (host fault %v absorbed) but the host received the code update: %s", o.S, t.Fired, cu)
					}
				}
			}
		}
	}
}

// checkFaulted: C28 (host faults carried) and C30 (gauge limits end the execution with the metering user error).
func (r *Runner) checkFaulted(i int, n *Node, t *Transcript, region string) {
	name := n.Cfg.Name
	gauge, host, errValued := false, false, true
	var site string
	for _, f := range t.Fired {
		if strings.Contains(f, "@g") {
			gauge = true
		} else {
			host = true
			site = f[strings.LastIndex(f, ":")+1:]
			if strings.Contains(f, "/panicstr@") {
				errValued = false
			}
		}
	}
	if host {
		if region == "" {
			region = t.RegionAt(t.FiredSeq)
		}
		key := fmt.Sprintf("swallow:%s:%s", site, n.Cfg.Engine)
		if region == "ITER" {
			key = "swallow-in-storage-iteration:" + site
		}
		switch {
		case t.Escaped != "":
			r.violate("C28", "host-fault.escaped", i, name, "escaped:"+site, "injected host panic at %s escaped the runtime API: %s", site, firstLine(t.Escaped))
		case t.Class == "ok":
			if site == "ValidatePublicKey" || region == "TRY" {
				return
			}
			r.violate("C28", "host-fault.success", i, name, key, "host fault %v was swallowed: execution reported success", t.Fired)
		case !t.CarriesInjected():
			if site == "ValidatePublicKey" || region == "TRY" {
				return
			}
			r.violate("C28", "host-fault.carry", i, name, key, "host fault %v not carried by the resulting error (%s %s): %s", t.Fired, t.Class, t.ErrType, t.ErrMsg)
		case t.Class != "external" && errValued:
			// not part of the property: a host failure met while checking an import is carried inside a (user) checker error
			r.Stats.Probes["host_fault_carried_by_"+t.Class+"_error"]++
		}
		return
	}
	if gauge {
		switch {
		case t.Escaped != "":
			r.violate("C30", "limit.escaped", i, name, "limit-escaped", "metering error escaped the runtime API as a panic: %s", firstLine(t.Escaped))
		case t.Class == "ok":
			r.violate("C30", "limit.ignored", i, name, "limit-ignored", "metering limit %v tripped but execution reported success", t.Fired)
		case t.Class != "user" || !t.CarriesInjected():
			r.violate("C30", "limit.class", i, name, "limit-class", "metering limit %v surfaced as %s error %s (carries host error: %v): %s", t.Fired, t.Class, t.ErrType, t.CarriesInjected(), t.ErrMsg)
		}
	}
}

func (r *Runner) noise(i int, n *Node, ns NoiseStep) {
	r.Stats.NoiseRuns++
	var req ExecReq
	switch ns.Kind {
	case "script":
		req = ExecReq{Kind: "script", Source: ScriptSource(ns.Ops, r.P.NAccts, r.Model), Salt: uint64(1000000 + i)}
	default:
		ops := append(append([]Op{}, ns.Ops...), Op{K: "x.panic", S: "noise"})
		req = ExecReq{Kind: "tx", Source: TxSource(ops, r.P.NAccts, r.Model), Signers: r.signers(), Salt: uint64(2000000 + i)}
	}
	t := n.Exec(req, false)
	r.account(n, t)
	st := Step{Kind: ns.Kind, Ops: ns.Ops}
	r.invariants(i, n, &st, t, false)
}

func (r *Runner) health(i int, n *Node) {
	r.Stats.HealthChecks++
	rep := CheckHealth(n.H.W)
	if rep.Err != "" {
		r.violate("C23", "ledger.health", i, n.Cfg.Name, "health", "%s", rep.Err)
	}
	if rep.ReencodeErr != "" {
		r.violate("C44", "ledger.reencode", i, n.Cfg.Name, "reencode", "%s", rep.ReencodeErr)
	}
	// conservation: no duplicate uuids; population == minted - destroyed
	seen := map[uint64]bool{}
	for _, u := range rep.UUIDs {
		if seen[u] {
			r.violate("C02", "conservation.duplicate", i, n.Cfg.Name, "dup-uuid", "uuid %d occurs twice in committed storage", u)
		}
		seen[u] = true
	}
	if n == r.Nodes[0] {
		var lost, ghost []uint64
		for u := range r.Minted {
			if !r.Destroyed[u] && !seen[u] {
				lost = append(lost, u)
			}
		}
		for u := range seen {
			if !r.Minted[u] || r.Destroyed[u] {
				ghost = append(ghost, u)
			}
		}
		sort.Slice(lost, func(a, b int) bool { return lost[a] < lost[b] })
		sort.Slice(ghost, func(a, b int) bool { return ghost[a] < ghost[b] })
		if len(lost) > 0 {
			r.violate("C02", "conservation.lost", i, n.Cfg.Name, "lost", "resources created and never destroyed are missing from storage: uuids %v", lost)
		}
		if len(ghost) > 0 {
			r.violate("C02", "conservation.ghost", i, n.Cfg.Name, "ghost", "storage holds resources that were destroyed or never created: uuids %v", ghost)
		}
		// the model's population
		var mu []uint64
		for _, ph := range r.Model.LiveUUIDs() {
			mu = append(mu, r.Bound[ph])
		}
		sort.Slice(mu, func(a, b int) bool { return mu[a] < mu[b] })
		var su []uint64
		for u := range seen {
			// scenario steps keep their resources in account 0x9, outside the model's accounts
			if o := rep.UUIDOwner[u]; o >= 1 && o <= uint64(r.P.NAccts) {
				su = append(su, u)
			}
		}
		sort.Slice(su, func(a, b int) bool { return su[a] < su[b] })
		if r.modelTracksResources() && fmt.Sprint(mu) != fmt.Sprint(su) {
			r.violate("C02", "conservation.model", i, n.Cfg.Name, "model-population", "stored resource uuids %v differ from the model's %v", su, mu)
		}
		// C22: occupied storage paths, read from the storage maps directly
		for a := 1; a <= r.P.NAccts; a++ {
			got := rep.Paths[fmt.Sprintf("%d/storage", a)]
			var want []string
			for p := range r.Model.Accts[a].Storage {
				want = append(want, p)
			}
			sort.Strings(want)
			if r.modelTracksResources() && fmt.Sprint(got) != fmt.Sprint(want) {
				r.violate("C22", "ledger.paths", i, n.Cfg.Name, "paths", "account %d: storage map keys %v differ from the model's occupied paths %v", a, got, want)
			}
		}
	}
	if rep.Slabs > r.Stats.Probes["max_slabs"] {
		r.Stats.Probes["max_slabs"] = rep.Slabs
	}
	if rep.Values > r.Stats.Probes["max_stored_values"] {
		r.Stats.Probes["max_stored_values"] = rep.Values
	}
}

// modelTracksResources: raw steps may create state the model does not know about.
func (r *Runner) modelTracksResources() bool {
	for _, s := range r.P.Steps {
		if s.Kind == "rawtx" && !s.IsScenario() {
			return false
		}
	}
	return true
}

func (r *Runner) readback(i int) {
	w := r.Nodes[0].H.W
	for a := 1; a <= r.P.NAccts; a++ {
		for _, p := range sortedKeys(r.Model.Accts[a].Storage) {
			r.Stats.Readbacks++
			got, err := ReadStored(w, a, p)
			want := subst(r.Model.Accts[a].Storage[p].CanonStored(), r.Bound, nil)
			if err != nil {
				r.violate("C22", "ledger.readback", i, "primary", "readback-error", "ReadStored(%d, %s) failed: %v", a, p, err)
				continue
			}
			if got != "?("+want+")" && got != want {
				prop := "C22"
				switch r.Model.Accts[a].Storage[p].T.K {
				case "R", "V":
					prop = "C02"
				case "Arr", "Dict", "CArr":
					prop = "C20"
				}
				r.violate(prop, "ledger.readback", i, "primary", "readback-mismatch", "stored value at 0x%x %s:\n   ledger: %s\n   model:  %s", a, sp(p), got, want)
			}
		}
	}
}

func (r *Runner) probes(n *Node) {
	w := n.H.W
	if len(w.Ledger) > r.Stats.Probes["max_registers"] {
		r.Stats.Probes["max_registers"] = len(w.Ledger)
	}
	for _, v := range w.Ledger {
		if len(v) > r.Stats.Probes["max_register_bytes"] {
			r.Stats.Probes["max_register_bytes"] = len(v)
		}
	}
}

// checkScenario compares the primary's execution of a scenario step with its hand-written expectation. Mismatches are attributed
// to the property the scenario is about (attachments: C49, resource movement: C02); for the others to the pseudo-property "SCN",
// which no check claims (it shows up under foreign_violations in the evidence): those scenarios are judged by replica agreement.
func (r *Runner) checkScenario(i int, s *Step, t *Transcript) {
	r.checkScenarioOn(i, s, t, r.Nodes[0].Cfg.Name)
}

func (r *Runner) checkScenarioOn(i int, s *Step, t *Transcript, name string) {
	prop := "SCN"
	switch {
	case strings.HasPrefix(s.Name, "scn:attachment"):
		prop = "C49"
	case strings.HasPrefix(s.Name, "scn:copy-"):
		prop = "C05"
	case strings.HasPrefix(s.Name, "scn:same-named-types"):
		prop = "C22"
	case strings.HasPrefix(s.Name, "scn:resource-juggling"), strings.HasPrefix(s.Name, "scn:foreign-"), strings.HasPrefix(s.Name, "scn:contract-resource"):
		prop = "C02"
	}
	r.Stats.Probes["scenario_steps"]++
	if s.SameEngineOnly {
		return // no expectation: judged by agreement within each engine
	}
	if s.Fails != "" {
		if t.Class == "ok" {
			r.violate(prop, "scenario.outcome", i, name, "scn-unexpected-success", "%s must fail with %s but succeeded (result %s)", s.Name, s.Fails, t.Result)
		} else if t.Class == "user" && !strings.Contains(t.ErrType, s.Fails) {
			r.violate(prop, "scenario.outcome", i, name, "scn-wrong-error", "%s must fail with %s, got %s: %s", s.Name, s.Fails, t.ErrType, t.ErrMsg)
		}
		return
	}
	if t.Class != "ok" {
		if t.Class == "user" {
			r.violate(prop, "scenario.outcome", i, name, "scn-unexpected-failure", "%s must succeed, failed with %s: %s", s.Name, t.ErrType, clip(fmt.Sprint(t.Err), 1500))
		}
		return // internal / escaped: reported by the C01 monitor
	}
	if s.HasExpect && len(s.Expect) > 0 && fmt.Sprint(t.Logs) != fmt.Sprint(s.Expect) {
		r.violate(prop, "scenario.logs", i, name, "scn-logs", "%s logged %v, expected %v", s.Name, t.Logs, s.Expect)
	}
}
