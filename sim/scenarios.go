package main

// Scenario family: short hand-written histories over language features that the modelled operation library does not reach
// (DESIGN.md §7 C34 "language family"). They run in their own account (0x9) and are interleaved with the modelled steps of a plan,
// with the same restarts, evictions, noise and faulted attempts. They have no model of their own: they are judged by the shared
// oracles — replica agreement (interpreter / VM / VM+peephole: C34; same engine with different histories: C33, C31), no internal
// errors (C01), ledger health (C23), resource conservation by uuid accounting (C02), event conformance (C48), abort discipline
// (C24, C28) — and, for the steps that carry one, by a hand-written expectation of their log.

import (
	"fmt"
	"strings"
)

const ScnAcct = 9

type scnContract struct {
	Name, Src string
	Addr      uint64 // 0 = the scenario account
}

// contracts of the scenario world, deployed (to account 0x9) by the prelude of every plan that enables the family
var scnContracts = []scnContract{
	{Name: "Far", Src: `
access(all) contract Far {
    access(all) event Note(msg: String, n: Int)
    access(all) event Opt(a: Int?, b: Int??, c: [Int?]?, d: {String: Int?}??, f: String???)
    access(all) fun emitOpt(_ x: Int?, _ s: String?) {
        let d: {String: Int?}? = x == nil ? nil : {"k": x}
        emit Opt(a: x, b: x, c: [x, nil], d: d, f: s)
    }
    access(all) resource T {
        access(all) event ResourceDestroyed(uuid: UInt64 = self.uuid, id: Int = self.id)
        access(all) let id: Int
        init(_ id: Int) { self.id = id }
    }
    access(all) resource interface Named {
        access(all) event ResourceDestroyed(name: String = self.name)
        access(all) let name: String
    }
    access(all) resource N: Named {
        access(all) event ResourceDestroyed(uuid: UInt64 = self.uuid, inner: Int? = self.inner?.id)
        access(all) let name: String
        access(all) var inner: @T?
        init(_ name: String, _ t: @T?) { self.name = name; self.inner <- t }
    }
    access(all) attachment Tag for T {
        access(all) event ResourceDestroyed(label: String = self.label)
        access(all) let label: String
        init(_ l: String) { self.label = l }
    }
    access(all) struct P {
        access(all) var x: Int
        access(all) var y: Int
        init(_ x: Int, _ y: Int) { self.x = x; self.y = y }
        access(all) fun setX(_ v: Int) { self.x = v }
        access(all) view fun norm1(): Int { return (self.x < 0 ? -self.x : self.x) + (self.y < 0 ? -self.y : self.y) }
    }
    access(all) struct Bag {
        access(all) var xs: [Int]
        access(all) var m: {String: [Int]}
        access(all) var inner: [AnyStruct]
        init(_ xs: [Int]) { self.xs = xs; self.m = {"k": [1]}; self.inner = [P(1, 1)] }
        access(all) fun push(_ x: Int) { self.xs.append(x) }
        access(all) fun put(_ k: String, _ v: [Int]) { self.m[k] = v }
        access(all) fun pushInner(_ v: AnyStruct) { self.inner.append(v) }
    }
    access(all) fun mk(_ id: Int): @T { return <- create T(id) }
    access(all) fun mkN(_ name: String, _ t: @T?): @N { return <- create N(name, <- t) }
    access(all) fun tagged(_ id: Int, _ l: String): @T { return <- attach Tag(l) to <- create T(id) }
    access(all) fun note(_ m: String, _ n: Int) { emit Note(msg: m, n: n) }
    access(all) fun build(_ f: fun(Int, Int): P, _ a: Int): P { return f(a, a + 1) }
    access(all) fun builder(): fun(Int, Int): P { return fun (_ x: Int, _ y: Int): P { return P(x, y) } }
    access(all) fun bagger(): fun([Int]): Bag { return fun (_ xs: [Int]): Bag { return Bag(xs) } }
}`},
	{Name: "Holder", Src: `
access(all) contract Holder {
    access(all) resource Box {
        access(all) event ResourceDestroyed(uuid: UInt64 = self.uuid, n: Int = self.n, many: Int = self.many.length)
        access(all) let n: Int
        access(all) var inner: @AnyResource?
        access(all) var many: @[AnyResource]
        access(all) var named: @{String: AnyResource}
        init(_ n: Int) { self.n = n; self.inner <- nil; self.many <- []; self.named <- {} }
        access(all) fun setInner(_ r: @AnyResource) { let old <- self.inner <- r; destroy old }
        access(all) fun add(_ r: @AnyResource) { self.many.append(<- r) }
        access(all) fun put(_ k: String, _ r: @AnyResource) { let old <- self.named[k] <- r; destroy old }
        access(all) fun takeInner(): @AnyResource? { let r <- self.inner <- nil; return <- r }
    }
    access(all) struct Any {
        access(all) var v: AnyStruct
        init(_ v: AnyStruct) { self.v = v }
    }
    access(all) fun mk(_ n: Int): @Box { return <- create Box(n) }
}`},
	{Name: "Cond", Src: `
access(all) contract Cond {
    access(all) var limit: Int
    access(all) var calls: Int
    access(all) event Ran(by: String, x: Int)

    access(all) struct interface Base {
        access(all) var total: Int
        access(all) fun add(_ x: Int): Int {
            pre { x >= 0: "Base.pre: negative" }
            post { result >= before(self.total): "Base.post: shrank"; self.total == before(self.total) + x: "Base.post: total" }
        }
        access(all) fun describe(): String { return "base:".concat(self.total.toString()) }
    }
    access(all) struct interface Limited: Base {
        access(all) fun add(_ x: Int): Int {
            pre { x <= Cond.limit: "Limited.pre: over the contract's limit" }
            post { result <= Cond.limit * 100: "Limited.post" }
        }
    }
    access(all) struct Acc: Limited {
        access(all) var total: Int
        init() { self.total = 0 }
        access(all) fun add(_ x: Int): Int { self.total = self.total + x; Cond.calls = Cond.calls + 1; return self.total }
    }
    access(all) struct Bad: Base {
        access(all) var total: Int
        init() { self.total = 0 }
        access(all) fun add(_ x: Int): Int { self.total = self.total + x + 1; return self.total }
    }
    access(all) resource interface Guarded {
        access(all) var n: Int
        access(all) fun work(_ x: Int): Int {
            pre { x <= Cond.limit: "Guarded.pre"; self.n >= 0: "Guarded.pre n" }
            post { self.n == before(self.n) + x: "Guarded.post" }
        }
    }
    access(all) resource G: Guarded {
        access(all) event ResourceDestroyed(uuid: UInt64 = self.uuid, n: Int = self.n)
        access(all) var n: Int
        init() { self.n = 0 }
        access(all) fun work(_ x: Int): Int { self.n = self.n + x; emit Ran(by: "G", x: x); return self.n }
    }
    access(all) fun mkG(): @G { return <- create G() }
    access(all) fun setLimit(_ l: Int) { self.limit = l }
    // "find, then update": a value returned from inside a for-in loop over a field by a function with post-conditions
    access(all) var items: [Int]
    access(all) fun find(_ x: Int): Int {
        post { result >= -1: "find.post" }
        for i, v in self.items { if v == x { return i } }
        return -1
    }
    access(all) fun findThenAppend(_ x: Int): Int { let i = self.find(x); self.items.append(x + 100); return i }
    access(all) struct interface Finder {
        access(all) var xs: [Int]
        access(all) fun has(_ x: Int): Bool { post { result == true || result == false: "Finder.post" } }
    }
    access(all) struct Shelf: Finder {
        access(all) var xs: [Int]
        init() { self.xs = [1, 2, 3] }
        access(all) fun has(_ x: Int): Bool {
            for v in self.xs { if v == x { return true } }
            return false
        }
        access(all) fun addIfMissing(_ x: Int): Int { if !self.has(x) { self.xs.append(x) } else { self.xs.remove(at: 0) }; return self.xs.length }
    }
    access(all) view fun double(_ x: Int): Int { return x * 2 }
    access(all) fun checked(_ x: Int): Int {
        pre { x != 13: "unlucky" }
        post { result == Cond.double(x): "double" }
        return x + x
    }
    init() { self.limit = 50; self.calls = 0; self.items = [5, 6, 7] }
}`},
	{Name: "Ext", Src: `
import Cond from 0x9
access(all) contract Ext {
    access(all) struct Acc2: Cond.Limited {
        access(all) var total: Int
        init() { self.total = 0 }
        access(all) fun add(_ x: Int): Int { self.total = self.total + x; return self.total }
        access(all) fun describe(): String { return "ext:".concat(self.total.toString()) }
    }
    access(all) resource G2: Cond.Guarded {
        access(all) event ResourceDestroyed(uuid: UInt64 = self.uuid)
        access(all) var n: Int
        init() { self.n = 5 }
        access(all) fun work(_ x: Int): Int { self.n = self.n + x; return self.n }
    }
    access(all) fun mkG2(): @G2 { return <- create G2() }
    init() {}
}`},
	{Name: "Slot", Src: `
import Far from 0x9
access(all) contract Slot {
    access(all) var slot: @Far.T?
    access(all) var shelf: @{String: Far.T}
    access(all) fun fill(_ r: @Far.T) { self.slot <-! r }
    access(all) fun take(): @Far.T? { let r <- self.slot <- nil; return <- r }
    access(all) fun swapIn(_ r: @Far.T): @Far.T? { let old <- self.slot <- r; return <- old }
    access(all) fun put(_ k: String, _ r: @Far.T) { self.shelf[k] <-! r }
    access(all) fun pull(_ k: String): @Far.T? { return <- self.shelf.remove(key: k) }
    access(all) view fun occupied(): Bool { return self.slot != nil }
    init() { self.slot <- nil; self.shelf <- {} }
}`},
	{Name: "CI", Src: `
access(all) contract interface CI {
    access(all) event Recorded(amount: Int)
    access(all) fun record(_ amount: Int): Int {
        pre { amount > 0: "amount must be positive" }
        post { emit Recorded(amount: amount) }
    }
}`},
	{Name: "CImpl", Src: `
import CI from 0x9
access(all) contract CImpl: CI {
    access(all) var total: Int
    access(all) fun record(_ amount: Int): Int { self.total = self.total + amount; return self.total }
    // no conformances: its same-named function has no conditions
    access(all) struct Plain {
        access(all) var n: Int
        init() { self.n = 0 }
        access(all) fun record(_ amount: Int): Int { self.n = self.n + amount; return self.n }
    }
    access(all) resource PlainR {
        access(all) event ResourceDestroyed(uuid: UInt64 = self.uuid)
        access(all) fun record(_ amount: Int): Int { return amount * 2 }
    }
    access(all) fun mkR(): @PlainR { return <- create PlainR() }
    init() { self.total = 0 }
}`},
	{Name: "Inf", Src: `
access(all) contract Inf {
    access(all) struct interface I1 { access(all) fun one(): Int }
    access(all) struct interface I2 {}
    access(all) struct interface I3 {}
    access(all) struct interface I4 {}
    access(all) struct A: I1, I2, I3, I4 { access(all) fun one(): Int { return 1 }; init() {} }
    access(all) struct B: I4, I3, I1, I2 { access(all) fun one(): Int { return 2 }; init() {} }
    access(all) struct C: I2, I1, I4 { access(all) fun one(): Int { return 3 }; init() {} }
    access(all) struct Person: I1 { access(all) let age: Int; init(_ a: Int) { self.age = a }; access(all) fun one(): Int { return self.age } }
    access(all) struct Robot: I1 { access(all) let serial: String; init(_ s: String) { self.serial = s }; access(all) fun one(): Int { return self.serial.length } }
    access(all) resource interface R1 {}
    access(all) resource interface R2 {}
    access(all) resource interface R3 {}
    access(all) resource X: R1, R2, R3 { access(all) event ResourceDestroyed(uuid: UInt64 = self.uuid); init() {} }
    access(all) resource Y: R3, R2, R1 { access(all) event ResourceDestroyed(uuid: UInt64 = self.uuid); init() {} }
    access(all) fun mkX(): @X { return <- create X() }
    access(all) fun mkY(): @Y { return <- create Y() }
    init() {}
}`},
	// the same contract, name and declarations, in two accounts: A.09.Twin.S and A.0a.Twin.S are unrelated types
	{Name: "Twin", Src: `access(all) contract Twin {
    access(all) struct S {
        access(all) let a: Int
        init(_ a: Int) { self.a = a }
    }
    access(all) resource R {
        access(all) event ResourceDestroyed(uuid: UInt64 = self.uuid)
        access(all) let a: Int
        init(_ a: Int) { self.a = a }
    }
    access(all) fun mkR(_ a: Int): @R { return <- create R(a) }
    init() {}
}`},
	{Name: "Twin", Src: `access(all) contract Twin {
    access(all) struct S {
        access(all) let a: Int
        init(_ a: Int) { self.a = a }
    }
    access(all) resource R {
        access(all) event ResourceDestroyed(uuid: UInt64 = self.uuid, a: Int = self.a, tag: String = "other")
        access(all) let a: Int
        init(_ a: Int) { self.a = a }
    }
    access(all) fun mkR(_ a: Int): @R { return <- create R(a) }
    init() {}
}`, Addr: 0xa},
	{Name: "Multi", Src: `
access(all) contract Multi {
    access(all) resource R {
        access(all) event ResourceDestroyed(uuid: UInt64 = self.uuid, n: Int = self.n)
        access(all) let n: Int
        init(_ n: Int) { self.n = n }
    }
    access(all) attachment M0 for R { access(all) let k: Int; init() { self.k = 0 } }
    access(all) attachment M1 for R { access(all) let k: Int; init() { self.k = 1 } }
    access(all) attachment M2 for R { access(all) let k: Int; init() { self.k = 2 } }
    access(all) attachment M3 for R { access(all) let k: Int; init() { self.k = 3 } }
    access(all) attachment M4 for R { access(all) let k: Int; init() { self.k = 4 } }
    access(all) attachment M5 for R { access(all) let k: Int; init() { self.k = 5 } }
    access(all) attachment MB for R { access(all) let k: Int; init() { self.k = 99 } }
    // the initializer reads the base, directly and through functions of the attachment
    access(all) attachment MI for R {
        access(all) let k: Int
        access(all) let direct: Int
        init() { self.direct = base.n; self.k = self.peek() + self.viaOther() }
        access(all) fun peek(): Int { return base.n }
        access(all) fun viaOther(): Int { return self.peek() * 2 }
    }
    access(all) struct SB { access(all) let v: Int; init(_ v: Int) { self.v = v } }
    access(all) attachment SI for SB {
        access(all) let seen: Int
        init() { self.seen = self.look() }
        access(all) fun look(): Int { return base.v + 1 }
    }
    access(all) fun mk(_ n: Int): @R { return <- create R(n) }
    access(all) fun decorate(_ r: @R): @R {
        let a <- attach M0() to <- r
        let b <- attach M1() to <- a
        let c <- attach M2() to <- b
        let d <- attach M3() to <- c
        let e <- attach M4() to <- d
        return <- attach M5() to <- e
    }
    access(all) fun sum(_ r: &R): Int {
        var t = 0
        if let a = r[M0] { t = t + 1 + a.k }
        if let a = r[M1] { t = t + 1 + a.k }
        if let a = r[M2] { t = t + 1 + a.k }
        if let a = r[M3] { t = t + 1 + a.k }
        if let a = r[M4] { t = t + 1 + a.k }
        if let a = r[M5] { t = t + 1 + a.k }
        if let a = r[MB] { t = t + 1000 + a.k }
        return t
    }
    access(all) fun strip(_ r: @R): @R { remove M1 from r; remove M4 from r; return <- r }
    init() {}
}`},
	{Name: "Ent", Src: `
access(all) contract Ent {
    access(all) entitlement Read
    access(all) entitlement Write
    access(all) entitlement Admin
    access(all) entitlement mapping Inner {
        Read -> Read
        Write -> Write
        Admin -> Read
        Admin -> Write
    }
    access(all) resource Leaf {
        access(all) event ResourceDestroyed(uuid: UInt64 = self.uuid, v: Int = self.v)
        access(all) var v: Int
        init() { self.v = 0 }
        access(Read) fun get(): Int { return self.v }
        access(Write) fun set(_ v: Int) { self.v = v }
    }
    access(all) resource Tree {
        access(all) event ResourceDestroyed(uuid: UInt64 = self.uuid)
        access(mapping Inner) let leaf: @Leaf
        access(all) var log: [String]
        init() { self.leaf <- create Leaf(); self.log = [] }
        access(Admin) fun reset() { self.leaf.set(0); self.log.append("reset") }
        access(Read | Write) fun touch() { self.log.append("touch") }
    }
    access(all) fun mkTree(): @Tree { return <- create Tree() }
    init() {}
}`},
}

type scnStep struct {
	SameEngineOnly bool // differential only, and only within each engine: any outcome is acceptable

	Kind   string // "tx" | "script"
	Src    string
	Expect []string // expected logs ("" entries are not checked); nil = differential only
	Fails  string   // "" = must succeed; otherwise a substring of the innermost error type expected on every engine
}

type scenario struct {
	Name  string
	Steps func(r *Rng) []scnStep
}

const scnImports = "import Far from 0x9\nimport Holder from 0x9\nimport Cond from 0x9\nimport Ext from 0x9\nimport Ent from 0x9\n"

func scnTx(imports, body string) string {
	return imports + "transaction {\n    prepare(s: auth(Storage, Capabilities, Contracts, Keys, Inbox) &Account) {\n" + body + "\n        World.end()\n    }\n}\n"
}

func scnScript(imports, ret, body string) string {
	return imports + "access(all) fun main(): " + ret + " {\n" + body + "\n}\n"
}

const impW = "import World from 0x1\n"

var scenarios = []scenario{
	{"foreign-nested-destroy", func(r *Rng) []scnStep {
		id := r.Intn(1000)
		form := r.Intn(4)
		put := []string{
			"b.setInner(<- Far.mk(%d))",
			"b.add(<- Far.mk(%d)); b.add(<- Far.mkN(\"n\", <- Far.mk(%d + 1)))",
			"b.put(\"k\", <- Far.tagged(%d, \"lbl\"))",
			"b.setInner(<- Far.mkN(\"outer\", <- Far.tagged(%d, \"deep\")))",
		}[form]
		put = strings.ReplaceAll(put, "%d", fmt.Sprint(id))
		p := fmt.Sprintf("scnBox%d", r.Intn(3))
		return []scnStep{
			{Kind: "tx", Src: scnTx(impW+"import Far from 0x9\nimport Holder from 0x9\n", fmt.Sprintf(`        if let old <- s.storage.load<@AnyResource>(from: /storage/%s) { destroy old }
        let b <- Holder.mk(%d)
        %s
        s.storage.save(<- b, to: /storage/%s)`, p, id, put, p))},
			// the destroying transaction does not import the contract that declares the nested resources
			{Kind: "tx", Src: scnTx(impW+"import Holder from 0x9\n", fmt.Sprintf(`        let b <- s.storage.load<@Holder.Box>(from: /storage/%s)!
        log(b.n)
        destroy b`, p)), Expect: []string{fmt.Sprint(id)}},
		}
	}},
	{"foreign-destroy-anyresource", func(r *Rng) []scnStep {
		id := r.Intn(1000)
		return []scnStep{
			{Kind: "tx", Src: scnTx(impW+"import Far from 0x9\n", fmt.Sprintf(`        if let old <- s.storage.load<@AnyResource>(from: /storage/scnAny) { destroy old }
        let arr: @[AnyResource] <- [<- Far.mk(%d), <- Far.tagged(%d, "t")]
        s.storage.save(<- arr, to: /storage/scnAny)`, id, id+1))},
			// imports nothing but World
			{Kind: "tx", Src: scnTx(impW, `        let arr <- s.storage.load<@[AnyResource]>(from: /storage/scnAny)!
        log(arr.length)
        destroy arr`), Expect: []string{"2"}},
		}
	}},
	{"inherited-conditions", func(r *Rng) []scnStep {
		x := r.Intn(60)
		lim := 20 + r.Intn(40)
		return []scnStep{
			{Kind: "tx", Src: scnTx(impW+"import Cond from 0x9\nimport Ext from 0x9\n", fmt.Sprintf(`        Cond.setLimit(%d)
        var a = Cond.Acc()
        log(a.add(%d %% %d))
        log(a.describe())
        var e = Ext.Acc2()
        log(e.add(%d %% %d))
        log(e.describe())
        log(Cond.checked(%d))
        let g <- Cond.mkG()
        log(g.work(%d %% %d))
        let g2 <- Ext.mkG2()
        log(g2.work(1))
        destroy g
        destroy g2`, lim, x, lim, x, lim, x%13, x, lim)),
				Expect: []string{fmt.Sprint(x % lim), fmt.Sprintf("%q", fmt.Sprintf("base:%d", x%lim)), fmt.Sprint(x % lim), fmt.Sprintf("%q", fmt.Sprintf("ext:%d", x%lim)), fmt.Sprint(2 * (x % 13)), fmt.Sprint(x % lim), "6"}},
			// violated conditions: each must fail with the condition error in every engine
			{Kind: "script", Src: scnScript("import Cond from 0x9\n", "Int", fmt.Sprintf("    var a = Cond.Acc()\n    return a.add(Cond.limit + %d)", 1+r.Intn(5))), Fails: "ConditionError"},
			{Kind: "script", Src: scnScript("import Cond from 0x9\n", "Int", "    var a = Cond.Acc()\n    return a.add(-1)"), Fails: "ConditionError"},
			{Kind: "script", Src: scnScript("import Cond from 0x9\n", "Int", "    var b = Cond.Bad()\n    return b.add(1)"), Fails: "ConditionError"},
			{Kind: "script", Src: scnScript("import Cond from 0x9\n", "Int", "    return Cond.checked(13)"), Fails: "ConditionError"},
			{Kind: "script", Src: scnScript("import Cond from 0x9\nimport Ext from 0x9\n", "Int", "    let g <- Ext.mkG2()\n    let n = g.work(Cond.limit + 1)\n    destroy g\n    return n"), Fails: "ConditionError"},
		}
	}},
	{"copy-anystruct", func(r *Rng) []scnStep {
		k := 4 + r.Intn(90)
		body := fmt.Sprintf(`    let a: [AnyStruct] = [Far.Bag([1, 2, 3]), Far.P(1, 2), "s", [Far.Bag([7])]]
    var b = a
    let c = [a]
    var d = c[0]
    let h = Holder.Any(a)
    var e = h.v as! [AnyStruct]
    let f = fun (_ x: [AnyStruct]): [AnyStruct] { return x }
    var g = f(a)
    let m: {String: AnyStruct} = {"bag": Far.Bag([1, 2, 3]), "p": Far.P(5, 6)}
    var m2 = m
    let o: [AnyStruct]? = a
    var o2 = o!
    let rb = &b as &[AnyStruct]
    (rb[0] as! &Far.Bag).push(%d)
    let rd = &d as &[AnyStruct]
    (rd[0] as! &Far.Bag).put("k", [9])
    let re = &e as &[AnyStruct]
    (re[1] as! &Far.P).setX(77)
    let rg = &g as &[AnyStruct]
    (rg[0] as! &Far.Bag).pushInner(true)
    let rm = &m2 as &{String: AnyStruct}
    (rm["bag"]! as! &Far.Bag).push(%d)
    (rm["p"]! as! &Far.P).setX(55)
    let ro = &o2 as &[AnyStruct]
    ((ro[3] as! &[AnyStruct])[0] as! &Far.Bag).push(8)
    log((a[0] as! Far.Bag).xs); log((b[0] as! Far.Bag).xs)
    log((a[0] as! Far.Bag).m["k"]!); log((d[0] as! Far.Bag).m["k"]!)
    log((a[1] as! Far.P).x); log((e[1] as! Far.P).x)
    log((a[0] as! Far.Bag).inner.length); log((g[0] as! Far.Bag).inner.length)
    log((m["bag"]! as! Far.Bag).xs); log((m2["bag"]! as! Far.Bag).xs); log((m["p"]! as! Far.P).x); log((m2["p"]! as! Far.P).x)
    log(((a[3] as! [AnyStruct])[0] as! Far.Bag).xs); log(((o2[3] as! [AnyStruct])[0] as! Far.Bag).xs)
    log(((c[0][0]) as! Far.Bag).xs.length); log(((h.v as! [AnyStruct])[0] as! Far.Bag).xs.length)`, k, k)
		exp := []string{"[1, 2, 3]", fmt.Sprintf("[1, 2, 3, %d]", k), "[1]", "[9]", "1", "77", "1", "2", "[1, 2, 3]", fmt.Sprintf("[1, 2, 3, %d]", k), "5", "55", "[7]", "[7, 8]", "3", "3"}
		return []scnStep{
			{Kind: "script", Src: scnScript("import Far from 0x9\nimport Holder from 0x9\n", "Int", body+"\n    return 0"), Expect: exp},
			{Kind: "tx", Src: scnTx(impW+"import Far from 0x9\nimport Holder from 0x9\n", fmt.Sprintf(`        s.storage.load<[AnyStruct]>(from: /storage/scnCopy)
        let a: [AnyStruct] = [Far.Bag([1, 2, 3]), Far.P(1, 2)]
        s.storage.save(a, to: /storage/scnCopy)
        var b = s.storage.copy<[AnyStruct]>(from: /storage/scnCopy)!
        let rb = &b as &[AnyStruct]
        (rb[0] as! &Far.Bag).push(%d)
        (rb[1] as! &Far.P).setX(8)
        let again = s.storage.copy<[AnyStruct]>(from: /storage/scnCopy)!
        log((again[0] as! Far.Bag).xs); log((b[0] as! Far.Bag).xs); log((again[1] as! Far.P).x); log((b[1] as! Far.P).x); log((a[0] as! Far.Bag).xs)
        let sref = s.storage.borrow<&[AnyStruct]>(from: /storage/scnCopy)!
        (sref[0] as! &Far.Bag).push(100)
        log((b[0] as! Far.Bag).xs); log((a[0] as! Far.Bag).xs)`, k)),
				Expect: []string{"[1, 2, 3]", fmt.Sprintf("[1, 2, 3, %d]", k), "1", "8", "[1, 2, 3]", fmt.Sprintf("[1, 2, 3, %d]", k), "[1, 2, 3]"}},
			{Kind: "script", Src: scnScript("import Far from 0x9\n", "[Int]", "    let a = getAuthAccount<auth(Storage) &Account>(0x9)\n    return (a.storage.copy<[AnyStruct]>(from: /storage/scnCopy)![0] as! Far.Bag).xs"), Expect: []string{}},
		}
	}},
	{"casts-and-types", func(r *Rng) []scnStep {
		n := r.Intn(100)
		return []scnStep{{Kind: "script", Src: scnScript("import Far from 0x9\nimport Holder from 0x9\n", "[String]", fmt.Sprintf(`    let out: [String] = []
    let vals: [AnyStruct] = [%d, "s", true, Far.P(1, -2), [1, 2], {"a": 1}, nil, Int8(3), 1.5, 0x1 as Address, /storage/x, Type<Int>(), Holder.Any(7), [Far.P(0, 0)] as [Far.P]]
    for v in vals {
        var s = v.getType().identifier
        if v as? Int != nil { s = s.concat(" Int") }
        if v as? Integer != nil { s = s.concat(" Integer") }
        if v as? Number != nil { s = s.concat(" Number") }
        if v as? String != nil { s = s.concat(" String") }
        if v as? [AnyStruct] != nil { s = s.concat(" [AnyStruct]") }
        if v as? [Int] != nil { s = s.concat(" [Int]") }
        if v as? {String: AnyStruct} != nil { s = s.concat(" {String:AnyStruct}") }
        if v as? Far.P != nil { s = s.concat(" P") }
        if v as? AnyStruct? != nil { s = s.concat(" Any?") }
        if v as? Int? != nil { s = s.concat(" Int?") }
        if v as? Path != nil { s = s.concat(" Path") }
        if v as? HashableStruct != nil { s = s.concat(" Hashable") }
        if v.isInstance(Type<Int>()) { s = s.concat(" isInt") }
        if v.isInstance(Type<AnyStruct>()) { s = s.concat(" isAny") }
        if v.isInstance(Type<[Far.P]>()) { s = s.concat(" is[P]") }
        if v.getType().isSubtype(of: Type<Number>()) { s = s.concat(" subNumber") }
        out.append(s)
    }
    let p = Far.P(%d, 2)
    let rp = &p as &Far.P
    let ra = rp as &AnyStruct
    out.append((ra as? &Far.P) != nil ? "ref-downcast-ok" : "ref-downcast-nil")
    out.append((ra as? &Int) != nil ? "ref-wrong-ok" : "ref-wrong-nil")
    let forced = (vals[0] as! Int) + 1
    out.append(forced.toString())
    return out`, n, n))}}
	}},
	{"force-cast-fails", func(r *Rng) []scnStep {
		return []scnStep{
			{Kind: "script", Src: scnScript("", "Int", "    let v: AnyStruct = \"x\"\n    return v as! Int"), Fails: "ForceCastTypeMismatchError"},
			{Kind: "script", Src: scnScript("", "Int", "    let v: Int? = nil\n    return v!"), Fails: "ForceNilError"},
			{Kind: "script", Src: scnScript("", "Int", "    let xs = [1, 2, 3]\n    return xs[3]"), Fails: "ArrayIndexOutOfBoundsError"},
			{Kind: "script", Src: scnScript("", "Int8", "    let a: Int8 = 127\n    return a + 1"), Fails: "OverflowError"},
			{Kind: "script", Src: scnScript("", "UInt8", "    let a: UInt8 = 0\n    return a - 1"), Fails: "UnderflowError"},
			{Kind: "script", Src: scnScript("", "Int", "    let a = 1\n    return a / (a - 1)"), Fails: "DivisionByZeroError"},
		}
	}},
	{"ranges", func(r *Rng) []scnStep {
		return []scnStep{{Kind: "script", Src: scnScript("", "[Int]", `    let out: [Int] = []
    for i in InclusiveRange(UInt8(250), UInt8(254)) { out.append(Int(i)) }
    for i in InclusiveRange(Int8(-125), Int8(-127), step: Int8(-1)) { out.append(Int(i)) }
    for i in InclusiveRange(5, 1, step: -2) { out.append(i) }
    for i in InclusiveRange(3, 3) { out.append(i) }
    let rg = InclusiveRange(0, 10, step: 5)
    out.append(rg.contains(5) ? 1 : 0)
    out.append(rg.contains(6) ? 1 : 0)
    for i in InclusiveRange(UInt64(18446744073709551612), UInt64(18446744073709551614)) { out.append(Int(i % 10)) }
    return out`), Expect: nil}}
	}},
	{"evaluation-order", func(r *Rng) []scnStep {
		return []scnStep{{Kind: "script", Src: scnScript("", "Int", `    let tr = fun (_ n: Int): Int { log(n); return n }
    let tb = fun (_ n: Int, _ b: Bool): Bool { log(n); return b }
    let arr = [tr(1), tr(2), tr(3)]
    let d = {tr(4): tr(5), tr(6): tr(7)}
    let x = tr(8) + tr(9) * tr(10)
    let y = tb(11, false) && tb(12, true)
    let z = tb(13, true) || tb(14, true)
    let o: Int? = nil
    let w = o ?? tr(15)
    let o2: Int? = 1
    let w2 = o2 ?? tr(16)
    let c = tb(17, true) ? tr(18) : tr(19)
    arr[tr(0)] = tr(20)
    let f = fun (_ a: Int, _ b: Int, _ c: Int): Int { return a + b + c }
    let s = f(tr(21), tr(22), tr(23))
    var i = 0
    while tb(24, i < 2) { i = i + 1 }
    return x + w + w2 + c + s`),
			Expect: []string{"1", "2", "3", "4", "5", "6", "7", "8", "9", "10", "11", "13", "15", "17", "18", "0", "20", "21", "22", "23", "24", "24", "24"}}}
	}},
	{"moved-resource-references", func(r *Rng) []scnStep {
		return []scnStep{
			{Kind: "script", Src: scnScript("import Far from 0x9\n", "Int", "    let t <- Far.mk(1)\n    let ref = &t as &Far.T\n    let arr <- [<- t]\n    let n = ref.id\n    destroy arr\n    return n"), Fails: "InvalidatedResourceReferenceError"},
			{Kind: "script", Src: scnScript("import Far from 0x9\n", "Int", "    let t <- Far.mk(1)\n    let ref = &t as &Far.T\n    destroy t\n    return ref.id"), Fails: "InvalidatedResourceReferenceError"},
			{Kind: "script", Src: scnScript("import Far from 0x9\n", "Int", "    let arr <- [<- Far.mk(1), <- Far.mk(2)]\n    let ref = &arr[0] as &Far.T\n    let first <- arr.remove(at: 0)\n    let n = ref.id\n    destroy first\n    destroy arr\n    return n"), Fails: "InvalidatedResourceReferenceError"},
			{Kind: "script", Src: scnScript("import Far from 0x9\n", "Int", "    let arr <- [<- Far.mk(7)]\n    let ref = &arr[0] as &Far.T\n    let n = ref.id\n    destroy arr\n    return n"), Expect: []string{}},
		}
	}},
	{"strings", func(r *Rng) []scnStep {
		w := []string{"hello", "caf\\u{e9}", "e\\u{301}a", "\\u{1F600}x", "a,b,,c", ""}[r.Intn(6)]
		return []scnStep{{Kind: "script", Src: scnScript("", "[String]", fmt.Sprintf(`    let s = "%s"
    let out: [String] = []
    out.append(s.length.toString())
    out.append(s.utf8.length.toString())
    out.append(s.concat("!").toLower())
    out.append(s.split(separator: ",").length.toString())
    out.append(s.replaceAll(of: "a", with: "A"))
    out.append(s.contains("a") ? "has-a" : "no-a")
    out.append(s.length > 1 ? s.slice(from: 1, upTo: s.length) : "short")
    out.append(String.join(["x", s, "y"], separator: "-"))
    out.append("\(s.length) chars")
    out.append(String.encodeHex(s.utf8))
    out.append(s == "%s" ? "eq" : "ne")
    var cs = ""
    for c in s { cs = c.toString().concat(cs) }
    out.append(cs)
    out.append(Int.fromString("12a")?.toString() ?? "nil")
    out.append(Int.fromString("-12")?.toString() ?? "nil")
    out.append(UInt8.fromString("256")?.toString() ?? "nil")
    out.append((1.5 as UFix64).toString())
    out.append(Int.fromBigEndianBytes([1, 0])!.toString())
    out.append(String.fromUTF8([104, 105]) ?? "nil")
    out.append(String.fromUTF8([255]) ?? "nil")
    out.append(true.toString().length.toString())
    out.append((s.length > 100).toString().concat("!"))
    for c in false.toString() { out.append(c.toString()) }
    out.append(true.toString().slice(from: 1, upTo: 3))
    return out`, w, w))}}
	}},
	{"closures", func(r *Rng) []scnStep {
		n := 2 + r.Intn(6)
		return []scnStep{{Kind: "script", Src: scnScript("import Far from 0x9\n", "[Int]", fmt.Sprintf(`    var counter = 0
    let inc = fun (): Int { counter = counter + 1; return counter }
    let mkAdder = fun (_ k: Int): fun(Int): Int { return fun (_ x: Int): Int { return x + k + counter } }
    let add5 = mkAdder(5)
    let out: [Int] = [inc(), inc(), add5(1)]
    var fib: fun(Int): Int = fun (_ n: Int): Int { return n }
    fib = fun (_ n: Int): Int { return n < 2 ? n : fib(n - 1) + fib(n - 2) }
    out.append(fib(%d))
    let pts = [Far.P(1, -5), Far.P(0, 2), Far.P(-3, -3)]
    out.appendAll(pts.map(fun (p: Far.P): Int { return p.x > 0 ? p.x : p.y }))
    out.appendAll(pts.filter(view fun (p: Far.P): Bool { return p.norm1() > 2 }).map(fun (p: Far.P): Int { return p.norm1() }))
    var acc = 0
    let each = fun (_ xs: [Int], _ f: fun(Int): Void) { for x in xs { f(x) } }
    each([1, 2, 3], fun (_ x: Int) { acc = acc + x * counter })
    out.append(acc)
    var k = 0
    let loopy = fun (_ p: Far.P): Int { var q = p; while q.x < 3 { q.setX(q.x + 1); k = k + 1 }; return q.x }
    out.append(loopy(Far.P(0, 0)))
    out.append(k)
    return out`, n))}}
	}},
	{"control-flow", func(r *Rng) []scnStep {
		n := r.Intn(20)
		return []scnStep{{Kind: "script", Src: scnScript("import World from 0x1\n", "[Int]", fmt.Sprintf(`    let out: [Int] = []
    var i = 0
    while i < 5 {
        i = i + 1
        var j = 0
        while true {
            j = j + 1
            if j > i { break }
            if (i + j) %% 2 == 0 { continue }
            out.append(i * 10 + j)
        }
        if i == 4 { break }
    }
    let e = World.E(rawValue: UInt8(%d %% 4))
    switch e {
    case World.E.a: out.append(100)
    case World.E.b: out.append(101)
    case nil: out.append(199)
    default: out.append(102)
    }
    let opt: Int?? = %d %% 3 == 0 ? nil : (%d %% 3 == 1 ? (nil as Int?) : 5)
    if let inner = opt { if let v = inner { out.append(v) } else { out.append(-1) } } else { out.append(-2) }
    let d: {String: [Int]} = {"a": [1, 2], "b": []}
    out.append(d["a"]?.length ?? -1)
    out.append(d["c"]?.length ?? -1)
    out.append(d["b"]!.length)
    for k in d.keys { out.append(d[k]!.length) }
    for idx, v in [7, 8] { out.append(idx * 100 + v) }
    var x = 1
    var y = 2
    x <-> y
    out.append(x * 10 + y)
    return out`, n, n, n))}}
	}},
	{"entitlements", func(r *Rng) []scnStep {
		v := r.Intn(100)
		return []scnStep{
			{Kind: "tx", Src: scnTx(impW+"import Ent from 0x9\n", fmt.Sprintf(`        if let old <- s.storage.load<@Ent.Tree>(from: /storage/scnTree) { destroy old }
        s.storage.save(<- Ent.mkTree(), to: /storage/scnTree)
        let admin = s.storage.borrow<auth(Ent.Admin) &Ent.Tree>(from: /storage/scnTree)!
        admin.leaf.set(%d)
        log(admin.leaf.get())
        admin.reset()
        let writer = s.storage.borrow<auth(Ent.Write) &Ent.Tree>(from: /storage/scnTree)!
        writer.leaf.set(%d + 1)
        writer.touch()
        let reader = s.storage.borrow<auth(Ent.Read) &Ent.Tree>(from: /storage/scnTree)!
        log(reader.leaf.get())
        log(reader.log)
        let plain = s.storage.borrow<&Ent.Tree>(from: /storage/scnTree)!
        log(plain.leaf.v)
        let cap = s.capabilities.storage.issue<auth(Ent.Read) &Ent.Tree>(/storage/scnTree)
        log(cap.borrow()!.leaf.get())
        let down = (reader as &Ent.Tree) as? auth(Ent.Write) &Ent.Tree
        log(down == nil)
        let up = (admin as auth(Ent.Admin) &Ent.Tree) as? auth(Ent.Admin) &Ent.Tree
        log(up != nil)`, v, v)), Expect: []string{fmt.Sprint(v), fmt.Sprint(v + 1), `["reset", "touch"]`, fmt.Sprint(v + 1), fmt.Sprint(v + 1), "true", "true"}},
			{Kind: "script", Src: scnScript("import Ent from 0x9\n", "Int", `    let a = getAuthAccount<auth(Storage) &Account>(0x9)
    let r = a.storage.borrow<auth(Ent.Read) &Ent.Tree>(from: /storage/scnTree)!
    return r.leaf.get()`)},
			// the mapped member through a reference with SEVERAL of the mapping's inputs ...
			{Kind: "script", Src: scnScript("import Ent from 0x9\n", "Int", `    let a = getAuthAccount<auth(Storage) &Account>(0x9)
    let r = a.storage.borrow<auth(Ent.Read, Ent.Write) &Ent.Tree>(from: /storage/scnTree)!
    r.leaf.set(r.leaf.get() + 1)
    let adm = a.storage.borrow<auth(Ent.Admin, Ent.Read) &Ent.Tree>(from: /storage/scnTree)!
    adm.leaf.set(3)
    return adm.leaf.get()`), Expect: []string{}},
			// ... must not widen what a single input grants to a later program (whatever is cached by then)
			{Kind: "script", Src: scnScript("import Ent from 0x9\n", "Int", `    let a = getAuthAccount<auth(Storage) &Account>(0x9)
    let r = a.storage.borrow<auth(Ent.Read) &Ent.Tree>(from: /storage/scnTree)!
    r.leaf.set(1)
    return r.leaf.get()`), Fails: "CheckerError"},
			{Kind: "script", Src: scnScript("import Ent from 0x9\n", "Int", `    let a = getAuthAccount<auth(Storage) &Account>(0x9)
    let w = a.storage.borrow<auth(Ent.Write) &Ent.Tree>(from: /storage/scnTree)!
    return w.leaf.get()`), Fails: "CheckerError"},
		}
	}},
	{"attachments", func(r *Rng) []scnStep {
		id := r.Intn(500)
		return []scnStep{{Kind: "tx", Src: scnTx(impW+"import Far from 0x9\n", fmt.Sprintf(`        let t <- Far.tagged(%d, "one")
        log(t[Far.Tag]?.label)
        var n = 0
        t.forEachAttachment(fun (a: &AnyResourceAttachment) { n = n + 1; log(a.getType().identifier) })
        log(n)
        let ref = &t as &Far.T
        log(ref[Far.Tag]!.label)
        remove Far.Tag from t
        log(t[Far.Tag] == nil)
        let t2 <- attach Far.Tag("two") to <- t
        let arr <- [<- t2]
        log(arr[0][Far.Tag]!.label)
        let w <- World.make(%d)
        let w2 <- attach World.A(3) to <- w
        log(w2[World.A]!.baseId())
        destroy w2
        destroy arr`, id, id)), Expect: []string{`"one"`, `"A.0000000000000009.Far.Tag"`, "1", `"one"`, "true", `"two"`, fmt.Sprint(id)}}}
	}},
	{"attachments-across-programs", func(r *Rng) []scnStep {
		// the transaction's own type table is shifted by a seeded number of unrelated declarations, so that the indices of the
		// attachment types differ between the transaction and the contract
		dummies := []string{"let d0: Int8 = 1", "let d1: [Int16] = []", "let d2: {String: Bool} = {}", "let d3: UInt64? = nil", "let d4: [UFix64; 2] = [1.0, 2.0]",
			"let d5: Address = 0x1", "let d6: Character = \"c\"", "let d7: [String?] = []", "let d8: Word32 = 3", "let d9: {Int: [Int]} = {}"}
		k := r.Intn(len(dummies) + 1)
		pre := ""
		for i := 0; i < k; i++ {
			pre += "        " + dummies[i] + "\n"
		}
		n := r.Intn(100)
		return []scnStep{
			{Kind: "tx", Src: scnTx(impW+"import Multi from 0x9\n", fmt.Sprintf(`%s        let r <- Multi.decorate(<- Multi.mk(%d))
        log(r[Multi.MB] == nil)
        log(r[Multi.M3]!.k)
        log(Multi.sum(&r as &Multi.R))
        remove Multi.MB from r
        log(Multi.sum(&r as &Multi.R))
        remove Multi.M2 from r
        log(Multi.sum(&r as &Multi.R))
        let r2 <- Multi.strip(<- r)
        log(Multi.sum(&r2 as &Multi.R))
        let r3 <- attach Multi.MB() to <- r2
        log(r3[Multi.MB]!.k)
        log(r3[Multi.M0]!.k)
        log(Multi.sum(&r3 as &Multi.R))
        var cnt = 0
        r3.forEachAttachment(fun (a: &AnyResourceAttachment) { cnt = cnt + 1 })
        log(cnt)
        if let old <- s.storage.load<@Multi.R>(from: /storage/scnMulti) { destroy old }
        s.storage.save(<- r3, to: /storage/scnMulti)`, pre, n)),
				Expect: []string{"true", "3", "21", "21", "18", "11", "99", "0", "1110", "4"}},
			{Kind: "tx", Src: scnTx(impW+"import Multi from 0x9\n", pre+`        let r <- s.storage.load<@Multi.R>(from: /storage/scnMulti)!
        log(Multi.sum(&r as &Multi.R))
        log(r[Multi.M1] == nil)
        log(r[Multi.M5]!.k)
        let again <- attach Multi.M0() to <- r
        destroy again`), Fails: "DuplicateAttachmentError"},
			{Kind: "script", Src: scnScript("import Multi from 0x9\n", "Int", `    let a = getAuthAccount<auth(Storage) &Account>(0x9)
    return Multi.sum(a.storage.borrow<&Multi.R>(from: /storage/scnMulti)!)`), Expect: []string{}},
		}
	}},
	{"contract-resource-slot", func(r *Rng) []scnStep {
		id := r.Intn(1000)
		imp := impW + "import Far from 0x9\nimport Slot from 0x9\n"
		return []scnStep{
			{Kind: "tx", Src: scnTx(imp, fmt.Sprintf(`        if let old <- Slot.take() { destroy old }
        if let old2 <- Slot.pull("k") { destroy old2 }
        Slot.fill(<- Far.mk(%d))
        Slot.put("k", <- Far.mk(%d))
        log(Slot.occupied())`, id, id+1)), Expect: []string{"true"}},
			// force-assignment onto an occupied resource field / dictionary entry of a contract must abort: nothing may be lost
			{Kind: "tx", Src: scnTx(imp, fmt.Sprintf(`        Slot.fill(<- Far.mk(%d))`, id+2)), Fails: "ResourceLossError"},
			{Kind: "tx", Src: scnTx(imp, fmt.Sprintf(`        Slot.put("k", <- Far.mk(%d))`, id+3)), Fails: "ResourceLossError"},
			{Kind: "tx", Src: scnTx(imp, fmt.Sprintf(`        let old <- Slot.swapIn(<- Far.mk(%d))
        log(old?.id)
        destroy old
        let cur <- Slot.take()
        log(cur?.id)
        destroy cur
        log(Slot.occupied())
        let k <- Slot.pull("k")
        log(k?.id)
        destroy k`, id+4)), Expect: []string{fmt.Sprint(id), fmt.Sprint(id + 4), "false", fmt.Sprint(id + 1)}},
		}
	}},
	{"same-named-types", func(r *Rng) []scnStep {
		v := r.Intn(1000)
		other := impW + "import Twin from 0xa\n"
		return []scnStep{
			{Kind: "tx", Src: scnTx(impW+"import Twin from 0x9\n", fmt.Sprintf(`        s.storage.load<Twin.S>(from: /storage/scnTwinS)
        if let old <- s.storage.load<@Twin.R>(from: /storage/scnTwinR) { destroy old }
        s.storage.save(Twin.S(%d), to: /storage/scnTwinS)
        s.storage.save(<- Twin.mkR(%d), to: /storage/scnTwinR)
        log(s.storage.check<Twin.S>(from: /storage/scnTwinS))
        log(s.storage.copy<Twin.S>(from: /storage/scnTwinS)!.a)`, v, v+1)), Expect: []string{"true", fmt.Sprint(v)}},
			// the type argument is the same-named type of the OTHER account
			{Kind: "tx", Src: scnTx(other, `        log(s.storage.check<Twin.S>(from: /storage/scnTwinS))
        log(s.storage.check<@Twin.R>(from: /storage/scnTwinR))
        log(s.storage.type(at: /storage/scnTwinS)!.identifier)
        log(s.storage.type(at: /storage/scnTwinS)! == Type<Twin.S>())
        log(s.storage.check<AnyStruct>(from: /storage/scnTwinS))`), Expect: []string{"false", "false", `"A.0000000000000009.Twin.S"`, "false", "true"}},
			{Kind: "tx", Src: scnTx(other, `        log(s.storage.borrow<&Twin.S>(from: /storage/scnTwinS) == nil)`), Fails: "TypeMismatchError"},
			{Kind: "tx", Src: scnTx(other, `        let c = s.storage.copy<Twin.S>(from: /storage/scnTwinS)
        log(c?.a)`), Fails: "TypeMismatchError"},
			{Kind: "tx", Src: scnTx(other, `        let c <- s.storage.load<@Twin.R>(from: /storage/scnTwinR)
        destroy c`), Fails: "TypeMismatchError"},
			{Kind: "script", Src: scnScript("import Twin from 0x9\n", "Int", "    let a = getAuthAccount<auth(Storage) &Account>(0x9)\n    return a.storage.copy<Twin.S>(from: /storage/scnTwinS)!.a + a.storage.borrow<&Twin.R>(from: /storage/scnTwinR)!.a"), Expect: []string{}},
			// both same-named types in one execution (import alias): each resource is destroyed with its OWN type's event
			{Kind: "tx", Src: scnTx(impW+"import Twin from 0x9\nimport Twin as TwinB from 0xa\n", `        let ra <- TwinB.mkR(2)
        let r9 <- Twin.mkR(1)
        destroy ra
        destroy r9
        let x9 <- Twin.mkR(3)
        let xa <- TwinB.mkR(4)
        log(x9.getType().identifier)
        log(xa.getType().identifier)
        log(x9.getType() == xa.getType())
        let arr: @[AnyResource] <- [<- x9, <- xa, <- Twin.mkR(5)]
        destroy arr`), Expect: []string{`"A.0000000000000009.Twin.R"`, `"A.000000000000000a.Twin.R"`, "false"}},
		}
	}},
	{"inferred-types", func(r *Rng) []scnStep {
		flag := r.Intn(2) == 0
		return []scnStep{
			// un-annotated literals and conditionals over different composites: the inferred (intersection) types reach logs, storage and results
			{Kind: "tx", Src: scnTx(impW+"import Inf from 0x9\n", fmt.Sprintf(`        let xs = [Inf.A(), Inf.B()]
        let ys = [Inf.B(), Inf.C(), Inf.A()]
        let d = {"a": Inf.A(), "c": Inf.C()}
        let c = %v ? Inf.A() : Inf.B()
        let o = [Inf.A(), nil, Inf.C()]
        log(xs.getType().identifier)
        log(ys.getType().identifier)
        log(d.getType().identifier)
        log(c.one())
        log(o.getType().identifier)
        log([xs, [Inf.C()]].getType().identifier)
        s.storage.load<AnyStruct>(from: /storage/scnInfXs)
        s.storage.load<AnyStruct>(from: /storage/scnInfD)
        s.storage.save(xs, to: /storage/scnInfXs)
        s.storage.save(d, to: /storage/scnInfD)
        let rs <- [<- Inf.mkX(), <- Inf.mkY()]
        log(rs.getType().identifier)
        if let old <- s.storage.load<@AnyResource>(from: /storage/scnInfRs) { destroy old }
        s.storage.save(<- rs, to: /storage/scnInfRs)`, flag))},
			{Kind: "script", Src: scnScript("import Inf from 0x9\n", "[AnyStruct]", `    let a = getAuthAccount<auth(Storage) &Account>(0x9)
    return [a.storage.type(at: /storage/scnInfXs)!.identifier, a.storage.type(at: /storage/scnInfD)!.identifier, a.storage.type(at: /storage/scnInfRs)!.identifier,
        [Inf.C(), Inf.B()], {1: Inf.A(), 2: Inf.B()}]`)},
		}
	}},
	{"contract-interface-conditions", func(r *Rng) []scnStep {
		a := 1 + r.Intn(50)
		imp := impW + "import CImpl from 0x9\n"
		return []scnStep{
			{Kind: "tx", Src: scnTx(imp, fmt.Sprintf(`        let before = CImpl.total
        log(CImpl.record(%d) - before)
        var p = CImpl.Plain()
        log(p.record(-5))
        log(p.record(%d))
        let pr <- CImpl.mkR()
        log(pr.record(-3))
        destroy pr`, a, a)), Expect: []string{fmt.Sprint(a), "-5", fmt.Sprint(a - 5), "-6"}},
			{Kind: "script", Src: scnScript("import CImpl from 0x9\n", "Int", "    return CImpl.record(-1)"), Fails: "ConditionError"},
			{Kind: "script", Src: scnScript("import CImpl from 0x9\n", "Int", "    var p = CImpl.Plain()\n    return p.record(-1)"), Expect: []string{}},
		}
	}},
	{"bound-method-after-replacement", func(r *Rng) []scnStep {
		age := r.Intn(90)
		imp := impW + "import Inf from 0x9\n"
		return []scnStep{
			// a method bound through a storage reference of interface type, called after the stored value was replaced by a value of
			// another conforming type: the reference no longer refers to a value of the type it was bound for
			{Kind: "tx", Src: scnTx(imp, fmt.Sprintf(`        s.storage.load<AnyStruct>(from: /storage/scnWho)
        s.storage.save(Inf.Person(%d), to: /storage/scnWho)
        let ref = s.storage.borrow<&{Inf.I1}>(from: /storage/scnWho)!
        let f = ref.one
        log(f())
        s.storage.load<Inf.Person>(from: /storage/scnWho)
        s.storage.save(Inf.Robot("rx-7"), to: /storage/scnWho)
        log(f())`, age)), Fails: "DereferenceError"},
			{Kind: "tx", Src: scnTx(imp, fmt.Sprintf(`        s.storage.load<AnyStruct>(from: /storage/scnWho)
        s.storage.save(Inf.Person(%d), to: /storage/scnWho)
        let ref = s.storage.borrow<&{Inf.I1}>(from: /storage/scnWho)!
        let f = ref.one
        s.storage.load<Inf.Person>(from: /storage/scnWho)
        s.storage.save(Inf.Person(%d + 1), to: /storage/scnWho)
        log(f())
        log(ref.one())`, age, age)), Expect: []string{fmt.Sprint(age + 1), fmt.Sprint(age + 1)}},
		}
	}},
	{"recursion-near-limit", func(r *Rng) []scnStep {
		lim := scnDepthLimit
		steps := []scnStep{
			// overflows: aborted with the whole call stack in place
			{Kind: "script", Src: scnScript("import World from 0x1\n", "Int", fmt.Sprintf("    return World.rec(%d, false)", lim+20+r.Intn(60))), Fails: "CallStackLimitExceededError"},
		}
		if r.Intn(2) == 0 {
			steps = append(steps, scnStep{Kind: "tx", Src: scnTx(impW, fmt.Sprintf("        log(World.rec(%d, false))", lim+5+r.Intn(10))), Fails: "CallStackLimitExceededError"})
		}
		// a few frames below the limit: where exactly the limit bites is the engine's business, but every node of one engine must
		// agree, whatever it executed (and aborted) before
		for _, j := range []int{30, 14, 9, 6, 4, 3, 2, 1, 0, -1, -2, -3} {
			if r.Intn(3) == 0 {
				continue
			}
			steps = append(steps, scnStep{Kind: "script", Src: scnScript("import World from 0x1\n", "Int", fmt.Sprintf("    return World.rec(%d, false)", lim-j)), SameEngineOnly: true})
		}
		return steps
	}},
	{"nested-optional-events", func(r *Rng) []scnStep {
		x := r.Intn(100)
		return []scnStep{{Kind: "tx", Src: scnTx(impW+"import Far from 0x9\n", fmt.Sprintf(`        Far.emitOpt(%d, "s")
        Far.emitOpt(nil, nil)
        let o: Int? = %d
        Far.emitOpt(o, nil)
        log("emitted")`, x, x+1)), Expect: []string{`"emitted"`}}}
	}},
	{"attachment-init-reads-base", func(r *Rng) []scnStep {
		n := r.Intn(500)
		return []scnStep{{Kind: "tx", Src: scnTx(impW+"import Multi from 0x9\n", fmt.Sprintf(`        let r <- attach Multi.MI() to <- Multi.mk(%d)
        log(r[Multi.MI]!.direct)
        log(r[Multi.MI]!.k)
        log(r[Multi.MI]!.peek())
        let sb = attach Multi.SI() to Multi.SB(%d)
        log(sb[Multi.SI]!.seen)
        destroy r`, n, n)), Expect: []string{fmt.Sprint(n), fmt.Sprint(3 * n), fmt.Sprint(n), fmt.Sprint(n + 1)}}}
	}},
	{"constructor-function-values", func(r *Rng) []scnStep {
		a := r.Intn(100)
		return []scnStep{{Kind: "script", Src: scnScript("import Far from 0x9\n", "[Int]", fmt.Sprintf(`    // constructors as function values, next to ordinary functions of the same signature, crossing program boundaries both ways
    let mk = Far.P
    let flip = fun (_ x: Int, _ y: Int): Far.P { return Far.P(y, x) }
    let p1 = mk(%d, 2)
    let p2 = Far.build(flip, %d)
    let p3 = Far.build(fun (_ x: Int, _ y: Int): Far.P { return mk(x, y) }, %d)
    let p4 = Far.builder()(7, 8)
    let mkBag = Far.Bag
    let b1 = mkBag([1, 2])
    let b2 = Far.bagger()([3])
    let fs: [fun(Int, Int): Far.P] = [flip, Far.builder()]
    var t = 0
    for f in fs { t = t + f(1, 2).x }
    let cs = [mk, Far.P]
    for c in cs { t = t + c(1, 2).y }
    return [p1.x, p2.x, p3.y, p4.y, b1.xs.length, b2.xs.length, t]`, a, a, a)), Expect: []string{}}}
	}},
	{"find-then-update", func(r *Rng) []scnStep {
		x := 5 + r.Intn(3)
		return []scnStep{{Kind: "tx", Src: scnTx(impW+"import Cond from 0x9\n", fmt.Sprintf(`        log(Cond.findThenAppend(%d))
        log(Cond.find(%d) >= 0)
        log(Cond.findThenAppend(999))
        var sh = Cond.Shelf()
        log(sh.addIfMissing(2))
        log(sh.addIfMissing(9))
        log(sh.has(9))`, x, x+100)), Expect: []string{fmt.Sprint(x - 5), "true", "-1", "2", "3", "true"}}}
	}},
	{"resource-juggling", func(r *Rng) []scnStep {
		a, b := r.Intn(100), 100+r.Intn(100)
		return []scnStep{{Kind: "tx", Src: scnTx(impW+"import Far from 0x9\nimport Holder from 0x9\n", fmt.Sprintf(`        var x <- Far.mk(%d)
        var y <- Far.mk(%d)
        x <-> y
        log(x.id)
        let arr <- [<- x, <- y]
        arr[0] <-> arr[1]
        log(arr[0].id)
        let first <- arr.removeFirst()
        var opt: @Far.T? <- first
        if let got <- opt { log(got.id); arr.append(<- got) } else { log("none") }
        let d: @{String: Far.T} <- {}
        let old <- d["k"] <- arr.removeLast()
        log(old == nil)
        destroy old
        let old2 <- d.insert(key: "k", <- Far.mk(3))
        log(old2?.id)
        destroy old2
        log(d.keys)
        let b <- Holder.mk(1)
        b.setInner(<- d)
        let back <- b.takeInner()! as! @{String: Far.T}
        log(back["k"]?.id)
        destroy back
        destroy b
        destroy arr`, a, b)), Expect: []string{fmt.Sprint(b), fmt.Sprint(a), fmt.Sprint(a), "true", fmt.Sprint(a), `["k"]`, "3"}}}
	}},
	{"arithmetic", func(r *Rng) []scnStep {
		x, y := r.Intn(200)-100, 1+r.Intn(50)
		return []scnStep{{Kind: "script", Src: scnScript("", "[String]", fmt.Sprintf(`    let out: [String] = []
    let x = %d
    let y = %d
    out.append((x / y).toString()); out.append((x %% y).toString()); out.append((x * y - y).toString())
    let a = Int8(x %% 100); let b = Int8(y)
    out.append(a.saturatingAdd(127).toString()); out.append(a.saturatingSubtract(127).toString()); out.append(a.saturatingMultiply(b).toString())
    let w = Word8(y) * 37; out.append(w.toString()); out.append((Word8(3) - Word8(y)).toString())
    let u = UInt64(y) << 3; out.append(u.toString()); out.append((u >> 2).toString()); out.append((u | 5).toString()); out.append((u & 12).toString()); out.append((u ^ 255).toString())
    let f: Fix64 = Fix64(x) / Fix64(y); out.append(f.toString())
    let uf: UFix64 = UFix64(y) * 1.25; out.append(uf.toString()); out.append(uf.saturatingSubtract(1000.0).toString())
    out.append(Int256(x).toBigEndianBytes().length.toString())
    out.append((Int128(x) * Int128(y) * 1000000000000).toString())
    out.append(UInt256(y).toString())
    out.append((x > y).toString()); out.append((x >= -y && x != y).toString())
    out.append(Int64(x).toString()); out.append(UInt8(y).toString())
    out.append((-x).toString())
    return out`, x, y))}}
	}},
	{"contract-state-and-events", func(r *Rng) []scnStep {
		k := 1 + r.Intn(4)
		return []scnStep{
			{Kind: "tx", Src: scnTx(impW+"import Cond from 0x9\nimport Far from 0x9\n", fmt.Sprintf(`        var i = 0
        while i < %d { Far.note("loop", i); i = i + 1 }
        let before = Cond.calls
        var a = Cond.Acc()
        a.add(1)
        a.add(2)
        log(Cond.calls - before)
        let g <- Cond.mkG()
        g.work(2)
        destroy g`, k)), Expect: []string{"2"}},
			{Kind: "script", Src: scnScript("import Cond from 0x9\n", "Int", "    return Cond.calls")},
		}
	}},
	{"dictionary-iteration", func(r *Rng) []scnStep {
		n := 3 + r.Intn(30)
		return []scnStep{{Kind: "script", Src: scnScript("", "[String]", fmt.Sprintf(`    let d: {String: Int} = {}
    var i = 0
    while i < %d { d["k".concat((i * 7 %% 31).toString())] = i; i = i + 1 }
    d.remove(key: "k0")
    d["zz"] = -1
    let out: [String] = []
    for k in d.keys { out.append(k) }
    d.forEachKey(fun (k: String): Bool { out.append(k.concat("!")); return k != "k14" })
    var sum = 0
    for v in d.values { sum = sum + v }
    out.append(sum.toString())
    out.append(d.length.toString())
    out.append(d.containsKey("zz").toString())
    let e: {Int: [String]} = {1: ["a"], 2: []}
    e[1]!.append("b")
    out.append(e[1]!.length.toString())
    return out`, n))}}
	}},
	{"tx-phases", func(r *Rng) []scnStep {
		v := r.Intn(50)
		return []scnStep{{Kind: "tx", Src: impW + fmt.Sprintf(`transaction {
    let n: Int
    let who: Address
    prepare(s: auth(Storage) &Account) {
        self.n = %d
        self.who = s.address
        s.storage.load<Int>(from: /storage/scnPhase)
        s.storage.save(self.n, to: /storage/scnPhase)
    }
    pre { self.n >= 0: "neg" }
    execute {
        log(self.n + 1)
        log(self.who)
        World.end()
    }
    post { self.n < 1000: "big" }
}
`, v), Expect: []string{fmt.Sprint(v + 1), "0x0000000000000009"}}}
	}},
	{"account-apis", func(r *Rng) []scnStep {
		return []scnStep{{Kind: "tx", Src: scnTx(impW, `        log(s.balance)
        log(s.availableBalance)
        log(s.storage.used > 0)
        log(s.storage.capacity > 0)
        let k = s.keys.add(publicKey: PublicKey(publicKey: "0102".decodeHex(), signatureAlgorithm: SignatureAlgorithm.ECDSA_P256), hashAlgorithm: HashAlgorithm.SHA3_256, weight: 100.0)
        log(k.keyIndex >= 0)
        log(s.keys.count > 0)
        log(s.keys.get(keyIndex: k.keyIndex)!.weight)
        log(s.keys.revoke(keyIndex: k.keyIndex)!.isRevoked)
        log(getCurrentBlock().height > 0)
        log(getBlock(at: getCurrentBlock().height)!.id == getCurrentBlock().id)
        log(revertibleRandom<UInt8>(modulo: 10) < 10)
        log(HashAlgorithm.SHA3_256.hash([1, 2, 3]).length)
        log(getAccount(0x1).contracts.names)
        log(s.contracts.names.length)`)}}
	}},
	{"runtime-types", func(r *Rng) []scnStep {
		return []scnStep{{Kind: "script", Src: scnScript("import Far from 0x9\nimport Ent from 0x9\n", "[String]", `    let out: [String] = []
    let ts: [Type] = [Type<Int>(), Type<[Int]>(), Type<{String: Far.P}>(), Type<@Far.T>(), Type<&Far.T>(), Type<auth(Ent.Read, Ent.Write) &Ent.Tree>(),
        Type<auth(Ent.Read | Ent.Write) &Ent.Tree>(), Type<Capability<&Far.T>>(), Type<@{Far.Named}>(), Type<Far.P?>(), Type<[Far.P; 2]>(), Type<InclusiveRange<Int>>()]
    for t in ts { out.append(t.identifier) }
    out.append(Type<Far.P>().isSubtype(of: Type<AnyStruct>()).toString())
    out.append(Type<@Far.N>().isSubtype(of: Type<@{Far.Named}>()).toString())
    out.append(Type<auth(Ent.Read, Ent.Write) &Ent.Tree>().isSubtype(of: Type<auth(Ent.Read) &Ent.Tree>()).toString())
    out.append(Type<auth(Ent.Read) &Ent.Tree>().isSubtype(of: Type<auth(Ent.Read, Ent.Write) &Ent.Tree>()).toString())
    out.append((OptionalType(Type<Int>()) == Type<Int?>()).toString())
    out.append((CompositeType("A.0000000000000009.Far.P") == Type<Far.P>()).toString())
    out.append((CompositeType("A.0000000000000009.Far.Nope") == nil).toString())
    out.append((ReferenceType(entitlements: ["A.0000000000000009.Ent.Read"], type: Type<@Ent.Tree>()) == Type<auth(Ent.Read) &Ent.Tree>()).toString())
    out.append(Type<Far.P>().isRecovered.toString())
    out.append((DictionaryType(key: Type<[Int]>(), value: Type<Int>()) == nil).toString())
    return out`)}}
	}},
}

// scnPrelude: deploy steps of the scenario world.
func scnPrelude() []Step {
	var steps []Step
	for _, c := range scnContracts {
		a := uint64(ScnAcct)
		if c.Addr != 0 {
			a = c.Addr
		}
		steps = append(steps, Step{Kind: "deploy", Name: c.Name, Source: strings.TrimSpace(c.Src), Signers: []uint64{a}})
	}
	return steps
}

// scnState: scenarios in progress while a plan is being generated
type scnState struct {
	pending []Step
}

// scnDepthLimit: the call-depth limit configured on every node of the plan being generated (set by the generator)
var scnDepthLimit = 2000

// next returns the next scenario step (starting a new scenario when none is in progress).
func (s *scnState) next(r *Rng) Step {
	if len(s.pending) == 0 {
		sc := scenarios[r.Intn(len(scenarios))]
		for k, st := range sc.Steps(r) {
			kind := "rawtx"
			if st.Kind == "script" {
				kind = "rawscript"
			}
			s.pending = append(s.pending, Step{Kind: kind, Name: fmt.Sprintf("scn:%s:%d", sc.Name, k), Source: st.Src, Signers: []uint64{ScnAcct}, Expect: st.Expect, Fails: st.Fails, HasExpect: st.Expect != nil, SameEngineOnly: st.SameEngineOnly})
		}
	}
	st := s.pending[0]
	s.pending = s.pending[1:]
	return st
}
