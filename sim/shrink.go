package main

// Minimisation: delta debugging on steps, operations, sub-operations, faults, noise and nodes (DESIGN.md §8).
// A candidate is accepted only if the same oracle of the same property still fails.

import (
	"time"
)

func stillFails(p *Plan, v Violation) bool {
	defer func() { recover() }() // a candidate that breaks the harness is simply not accepted
	run := RunPlan(p.Clone(), RunOpts{Health: true, Readback: true, Only: v.Property})
	for _, x := range run.V {
		if x.Property == v.Property && x.Oracle == v.Oracle {
			return true
		}
	}
	return false
}

// ddmin over a list of n items: keep(i) reports; build(keepMask) -> candidate
func ddmin(n int, deadline time.Time, test func(keep []bool) bool) []bool {
	keep := make([]bool, n)
	for i := range keep {
		keep[i] = true
	}
	chunk := n / 2
	if chunk < 1 {
		chunk = 1
	}
	for chunk >= 1 && time.Now().Before(deadline) {
		removedAny := false
		for start := 0; start < n && time.Now().Before(deadline); start += chunk {
			cand := append([]bool{}, keep...)
			any := false
			for i := start; i < start+chunk && i < n; i++ {
				if cand[i] {
					cand[i] = false
					any = true
				}
			}
			if !any {
				continue
			}
			if test(cand) {
				keep = cand
				removedAny = true
			}
		}
		if chunk == 1 && !removedAny {
			break
		}
		if !removedAny || chunk > 1 {
			chunk /= 2
		}
	}
	return keep
}

func ShrinkPlan(p *Plan, v Violation, budget time.Duration) *Plan {
	deadline := time.Now().Add(budget)
	cur := p.Clone()
	// 1. truncate after the violating step
	if v.Step+1 < len(cur.Steps) {
		c := cur.Clone()
		c.Steps = c.Steps[:v.Step+1]
		if stillFails(c, v) {
			cur = c
		}
	}
	// 2. steps (never the deployment at index 0)
	if n := len(cur.Steps) - 1; n > 0 {
		keep := ddmin(n, deadline, func(k []bool) bool {
			c := cur.Clone()
			c.Steps = c.Steps[:1]
			for i, s := range cur.Steps[1:] {
				if k[i] {
					c.Steps = append(c.Steps, s)
				}
			}
			return stillFails(c, v)
		})
		c := cur.Clone()
		c.Steps = c.Steps[:1]
		for i, s := range cur.Steps[1:] {
			if keep[i] {
				c.Steps = append(c.Steps, s)
			}
		}
		cur = c
	}
	// 3. nodes: drop shadows one at a time
	for i := len(cur.Nodes) - 1; i >= 1 && time.Now().Before(deadline); i-- {
		c := cur.Clone()
		name := c.Nodes[i].Name
		c.Nodes = append(c.Nodes[:i:i], c.Nodes[i+1:]...)
		for si := range c.Steps {
			delete(c.Steps[si].Attempts, name)
			delete(c.Steps[si].Noise, name)
		}
		if stillFails(c, v) {
			cur = c
		}
	}
	// 4. noise and attempts
	for si := range cur.Steps {
		for _, name := range sortedAttemptKeys(cur.Steps[si].Attempts) {
			if !time.Now().Before(deadline) {
				break
			}
			c := cur.Clone()
			delete(c.Steps[si].Attempts, name)
			if stillFails(c, v) {
				cur = c
			}
		}
		var nn []string
		for name := range cur.Steps[si].Noise {
			nn = append(nn, name)
		}
		sortStrings(nn)
		for _, name := range nn {
			if !time.Now().Before(deadline) {
				break
			}
			c := cur.Clone()
			delete(c.Steps[si].Noise, name)
			if stillFails(c, v) {
				cur = c
			}
		}
	}
	// 5. ops inside steps
	for si := range cur.Steps {
		n := len(cur.Steps[si].Ops)
		if n <= 1 || !time.Now().Before(deadline) {
			continue
		}
		build := func(k []bool) *Plan {
			c := cur.Clone()
			c.Steps[si].Ops = nil
			for i, o := range cur.Steps[si].Ops {
				if k[i] {
					c.Steps[si].Ops = append(c.Steps[si].Ops, o)
				}
			}
			return c
		}
		keep := ddmin(n, deadline, func(k []bool) bool {
			c := build(k)
			if len(c.Steps[si].Ops) == 0 {
				return false
			}
			return stillFails(c, v)
		})
		if c := build(keep); len(c.Steps[si].Ops) > 0 {
			cur = c
		}
	}
	// 6. sub-operations of container ops
	for si := range cur.Steps {
		for oi := range cur.Steps[si].Ops {
			n := len(cur.Steps[si].Ops[oi].Sub)
			if n <= 1 || !time.Now().Before(deadline) {
				continue
			}
			build := func(k []bool) *Plan {
				c := cur.Clone()
				c.Steps[si].Ops[oi].Sub = nil
				for i, s := range cur.Steps[si].Ops[oi].Sub {
					if k[i] {
						c.Steps[si].Ops[oi].Sub = append(c.Steps[si].Ops[oi].Sub, s)
					}
				}
				return c
			}
			keep := ddmin(n, deadline, func(k []bool) bool {
				c := build(k)
				if len(c.Steps[si].Ops[oi].Sub) == 0 {
					return false
				}
				return stillFails(c, v)
			})
			if c := build(keep); len(c.Steps[si].Ops[oi].Sub) > 0 {
				cur = c
			}
		}
	}
	// 7. a second pass over steps (removing ops often makes whole steps removable)
	if n := len(cur.Steps) - 1; n > 1 && time.Now().Before(deadline) {
		base := cur
		keep := ddmin(n, deadline, func(k []bool) bool {
			c := base.Clone()
			c.Steps = c.Steps[:1]
			for i, s := range base.Steps[1:] {
				if k[i] {
					c.Steps = append(c.Steps, s)
				}
			}
			return stillFails(c, v)
		})
		c := base.Clone()
		c.Steps = c.Steps[:1]
		for i, s := range base.Steps[1:] {
			if keep[i] {
				c.Steps = append(c.Steps, s)
			}
		}
		cur = c
	}
	if !stillFails(cur, v) {
		return p // should not happen; fall back to the unminimised plan
	}
	return cur
}
