package main

// The fixed Cadence "world" deployed at the start of every plan (DESIGN.md §3.3), and the model's
// closed universe of types and values with their Cadence renderings.

import (
	"fmt"
	"sort"
	"strings"
)

const WorldAddr = 1

const worldStatic = `
access(all) contract World {

    access(all) entitlement X
    access(all) entitlement Y

    access(all) event End()
    access(all) event Mark(name: String)
    access(all) event Made(id: Int, uuid: UInt64)
    access(all) event Rich(a: Int, b: String, c: [UInt8], d: {String: Int}, e: Address, f: Int?, g: Type, h: StoragePath, i: S, k: UFix64, l: [S], m: Bool, n: Character)

    access(all) var counter: Int
    access(all) var caps: {Int: Capability}

    access(all) struct interface SI {
        access(all) fun tag(): String
    }

    access(all) struct S: SI {
        access(all) var a: Int
        access(all) var xs: [Int]
        access(all) var m: {String: Int}
        access(all) var kids: [S]
        access(all) var o: String?
        access(all) var oa: [Int]?
        init(_ a: Int, _ xs: [Int], _ m: {String: Int}, _ kids: [S], _ o: String?, _ oa: [Int]?) {
            self.a = a; self.xs = xs; self.m = m; self.kids = kids; self.o = o; self.oa = oa
        }
        access(all) fun setO(_ o: String?) { self.o = o }
        access(all) fun pushOA(_ n: Int) { if self.oa == nil { self.oa = [n] } else { self.oa!.append(n) } }
        access(all) fun tag(): String { return "S" }
        access(all) fun setA(_ a: Int) { self.a = a }
        access(all) fun push(_ n: Int) { self.xs.append(n) }
        access(all) fun put(_ k: String, _ n: Int) { self.m[k] = n }
        access(all) fun addKid(_ s: S) { self.kids.append(s) }
        access(all) fun setKidA(_ i: Int, _ a: Int) { self.kids[i].setA(a) }
        access(all) fun setKids(_ ks: [S]) { self.kids = ks }
        access(all) fun getKids(): [S] { return self.kids }
    }

    access(all) struct Box {
        access(all) var v: AnyStruct
        init(_ v: AnyStruct) { self.v = v }
    }

    access(all) enum E: UInt8 {
        access(all) case a
        access(all) case b
        access(all) case c
    }

    access(all) struct RSnap {
        access(all) let uuid: UInt64
        access(all) let id: Int
        access(all) let n: Int
        access(all) let data: [Int]
        access(all) let kids: [RSnap]
        access(all) let named: {String: RSnap}
        access(all) let atts: {String: Int}
        init(uuid: UInt64, id: Int, n: Int, data: [Int], kids: [RSnap], named: {String: RSnap}, atts: {String: Int}) {
            self.uuid = uuid; self.id = id; self.n = n; self.data = data; self.kids = kids; self.named = named; self.atts = atts
        }
    }

    access(all) resource interface RI {
        access(all) event ResourceDestroyed(tag: String = "ri", rid: Int = self.id)
        access(all) let id: Int
        access(all) fun name(): String { return "ri" }
    }

    access(all) resource R: RI {
        access(all) event ResourceDestroyed(uuid: UInt64 = self.uuid, id: Int = self.id, n: Int = self.n, kids: Int = self.kids.length)
        access(all) let id: Int
        access(all) var n: Int
        access(all) var kids: @[R]
        access(all) var named: @{String: R}
        access(all) var data: [Int]
        access(all) var opt: @R?
        init(_ id: Int) { self.id = id; self.n = 0; self.kids <- []; self.named <- {}; self.data = []; self.opt <- nil }
        access(all) fun add(_ r: @R) { self.kids.append(<-r) }
        access(all) fun insertKid(_ i: Int, _ r: @R) { self.kids.insert(at: i, <-r) }
        access(all) fun put(_ k: String, _ r: @R) { let old <- self.named[k] <- r; destroy old }
        access(all) fun take(_ i: Int): @R { return <- self.kids.remove(at: i) }
        access(all) fun takeNamed(_ k: String): @R? { return <- self.named.remove(key: k) }
        access(all) fun setOpt(_ r: @R?): @R? { let old <- self.opt <- r; return <- old }
        access(all) fun push(_ x: Int) { self.data.append(x) }
        access(all) fun setN(_ x: Int) { self.n = x }
        access(all) fun kid(_ i: Int): &R { return &self.kids[i] }
        access(all) fun namedKid(_ k: String): &R? { return &self.named[k] }
        access(X) fun secret(): Int { return self.id * 2 }
        access(all) fun snap(): RSnap {
            let ks: [RSnap] = []
            var i = 0
            while i < self.kids.length { ks.append(self.kids[i].snap()); i = i + 1 }
            let nm: {String: RSnap} = {}
            for k in self.named.keys { nm[k] = self.namedKid(k)!.snap() }
            let atts: {String: Int} = {}
            if let a = self[A] { atts["A"] = a.n }
            if let b = self[B] { atts["B"] = b.m }
            if let o = &self.opt as &R? { nm["$opt"] = o.snap() }
            return RSnap(uuid: self.uuid, id: self.id, n: self.n, data: self.data, kids: ks, named: nm, atts: atts)
        }
    }

    access(all) resource V {
        access(all) event ResourceDestroyed(uuid: UInt64 = self.uuid, bal: Int = self.bal, obal: Int? = self.bal)
        access(all) var bal: Int
        init(_ bal: Int) { self.bal = bal }
    }

    access(all) attachment A for R {
        access(all) event ResourceDestroyed(n: Int = self.n, baseId: Int = base.id)
        access(all) var n: Int
        init(_ n: Int) { self.n = n }
        access(all) fun baseId(): Int { return base.id }
        access(all) fun baseUuid(): UInt64 { return base.uuid }
        access(all) fun selfN(): Int { return self.n }
        access(all) fun setN(_ n: Int) { self.n = n }
    }

    access(all) attachment B for R {
        access(all) event ResourceDestroyed(m: Int = self.m)
        access(all) var m: Int
        init(_ m: Int) { self.m = m }
        access(all) fun sum(): Int { return self.m + base.n }
    }

    access(all) attachment SA for S {
        access(all) var n: Int
        init(_ n: Int) { self.n = n }
        access(all) fun baseA(): Int { return base.a }
    }

    access(all) fun make(_ id: Int): @R {
        self.counter = self.counter + 1
        let r <- create R(id)
        emit Made(id: id, uuid: r.uuid)
        return <- r
    }
    access(all) fun makeV(_ bal: Int): @V { return <- create V(bal) }
    access(all) fun mkS(_ a: Int, _ xs: [Int], _ m: {String: Int}, _ kids: [S], _ o: String?, _ oa: [Int]?): S { return S(a, xs, m, kids, o, oa) }
    access(all) fun idS(_ s: S): S { return s }
    access(all) fun cloneS(_ r: &S): S {
        let ks: [S] = []
        for k in r.kids { ks.append(self.cloneS(k)) }
        var oa: [Int]? = nil
        if let x = r.oa { oa = *x }
        return S(r.a, *r.xs, *r.m, ks, r.o, oa)
    }
    access(all) fun idArr(_ s: [S]): [S] { return s }
    access(all) fun idAny(_ s: AnyStruct): AnyStruct { return s }
//OBS//
    access(all) fun end() { emit End() }
    access(all) fun mark(_ name: String) { emit Mark(name: name) }
    access(all) fun fail(_ m: String) { panic(m) }
    access(all) fun rec(_ n: Int, _ boom: Bool): Int {
        if n == 0 { if boom { panic("bottom") }; return 0 }
        return 1 + self.rec(n - 1, boom)
    }
    access(all) fun rich(_ n: Int) {
        emit Rich(a: n, b: n.toString(), c: [1, 2, UInt8(n % 200)], d: {"k": n}, e: 0x1, f: n % 2 == 0 ? n : nil, g: Type<@R>(), h: /storage/p,
                  i: S(n, [n], {}, [], nil, nil), k: 1.5, l: [S(1, [], {}, [], "z", [1])], m: n > 3, n: "x")
    }

    access(all) fun putCap(_ n: Int, _ c: Capability) { self.caps[n] = c }
    access(all) fun getCap(_ n: Int): Capability? { return self.caps[n] }
    init() { self.counter = 0; self.caps = {} }
}
`

// ---------------------------------------------------------------------------------------------
// types

type Ty struct {
	K    string `json:"k"`              // Int String Bool Arr CArr Dict Opt S E R V AnyStruct AnyResource SI RI UInt64 UInt8 Address Path
	Elem *Ty    `json:"e,omitempty"`    // Arr, CArr, Opt, Dict value
	Key  *Ty    `json:"key,omitempty"`  // Dict key
	N    int    `json:"n,omitempty"`    // CArr size
}

var (
	TInt    = &Ty{K: "Int"}
	TString = &Ty{K: "String"}
	TBool   = &Ty{K: "Bool"}
	TS      = &Ty{K: "S"}
	TE      = &Ty{K: "E"}
	TR      = &Ty{K: "R"}
	TV      = &Ty{K: "V"}
	TAnyS   = &Ty{K: "AnyStruct"}
	TAnyR   = &Ty{K: "AnyResource"}
	TSI     = &Ty{K: "SI"}
	TRI     = &Ty{K: "RI"}
	TU64    = &Ty{K: "UInt64"}
	TU8     = &Ty{K: "UInt8"}
	TSnap   = &Ty{K: "Snap"}
	TPath   = &Ty{K: "StoragePath"}
)

func TArr(e *Ty) *Ty       { return &Ty{K: "Arr", Elem: e} }
func TCArr(e *Ty, n int) *Ty { return &Ty{K: "CArr", Elem: e, N: n} }
func TDict(k, v *Ty) *Ty   { return &Ty{K: "Dict", Key: k, Elem: v} }
func TOpt(e *Ty) *Ty       { return &Ty{K: "Opt", Elem: e} }

const worldPrefix = "A.0000000000000001.World."

// Src renders the type as Cadence source (without the @ resource marker).
func (t *Ty) Src() string {
	switch t.K {
	case "Arr":
		return "[" + t.Elem.Src() + "]"
	case "CArr":
		return fmt.Sprintf("[%s; %d]", t.Elem.Src(), t.N)
	case "Dict":
		return "{" + t.Key.Src() + ": " + t.Elem.Src() + "}"
	case "Opt":
		return t.Elem.Src() + "?"
	case "S", "E", "R", "V":
		return "World." + t.K
	case "SI", "RI":
		return "{World." + t.K + "}"
	case "Snap":
		return "World.RSnap"
	}
	return t.K
}

// Ann renders the type as a type annotation / type argument (with @ for resources).
func (t *Ty) Ann() string {
	if t.IsResource() {
		return "@" + t.Src()
	}
	return t.Src()
}

// ID renders the type identifier as Cadence's Type.identifier reports it (documented format).
func (t *Ty) ID() string {
	switch t.K {
	case "Arr":
		return "[" + t.Elem.ID() + "]"
	case "CArr":
		return fmt.Sprintf("[%s;%d]", t.Elem.ID(), t.N)
	case "Dict":
		return "{" + t.Key.ID() + ":" + t.Elem.ID() + "}"
	case "Opt":
		return "(" + t.Elem.ID() + ")?"
	case "S", "E", "R", "V":
		return worldPrefix + t.K
	case "SI", "RI":
		return "{" + worldPrefix + t.K + "}"
	}
	return t.K
}

func (t *Ty) IsResource() bool {
	switch t.K {
	case "R", "V", "AnyResource", "RI":
		return true
	case "Arr", "CArr", "Opt", "Dict":
		return t.Elem.IsResource()
	}
	return false
}

func (t *Ty) Equal(u *Ty) bool {
	if t == nil || u == nil {
		return t == u
	}
	if t.K != u.K || t.N != u.N {
		return false
	}
	if (t.Elem == nil) != (u.Elem == nil) || (t.Key == nil) != (u.Key == nil) {
		return false
	}
	if t.Elem != nil && !t.Elem.Equal(u.Elem) {
		return false
	}
	if t.Key != nil && !t.Key.Equal(u.Key) {
		return false
	}
	return true
}

// SubType is the model's own subtype table for its closed universe (language reference: subtyping).
func SubType(t, u *Ty) bool {
	if t.Equal(u) {
		return true
	}
	switch u.K {
	case "AnyStruct":
		return !t.IsResource()
	case "AnyResource":
		return t.IsResource()
	case "SI":
		return t.K == "S"
	case "RI":
		return t.K == "R"
	case "Opt":
		if t.K == "Opt" {
			return SubType(t.Elem, u.Elem)
		}
		return SubType(t, u.Elem)
	case "Arr":
		return t.K == "Arr" && SubType(t.Elem, u.Elem)
	case "CArr":
		return t.K == "CArr" && t.N == u.N && SubType(t.Elem, u.Elem)
	case "Dict":
		return t.K == "Dict" && SubType(t.Key, u.Key) && SubType(t.Elem, u.Elem)
	}
	return false
}

// ---------------------------------------------------------------------------------------------
// values

type Val struct {
	T     *Ty             `json:"t"`
	I     int64           `json:"i,omitempty"`
	S     string          `json:"s,omitempty"`
	B     bool            `json:"b,omitempty"`
	Elems []*Val          `json:"el,omitempty"`  // Arr / CArr
	Keys  []*Val          `json:"ks,omitempty"`  // Dict
	Vals  []*Val          `json:"vs,omitempty"`  // Dict
	Opt   *Val            `json:"o,omitempty"`   // Opt: nil means nil
	F     map[string]*Val `json:"f,omitempty"`   // S / R / V fields
	U     string          `json:"u,omitempty"`   // R / V: uuid placeholder name (e.g. "u12")
	Atts  map[string]*Val `json:"at,omitempty"`  // attachments by name ("A","B","SA")
}

func VInt(i int64) *Val      { return &Val{T: TInt, I: i} }
func VStr(s string) *Val     { return &Val{T: TString, S: s} }
func VBool(b bool) *Val      { return &Val{T: TBool, B: b} }
func VArr(t *Ty, e ...*Val) *Val { return &Val{T: t, Elems: e} }
func VDict(t *Ty) *Val       { return &Val{T: t} }
func VNil(t *Ty) *Val        { return &Val{T: t} }
func VSome(t *Ty, v *Val) *Val { return &Val{T: t, Opt: v} }
func VEnum(raw int64) *Val   { return &Val{T: TE, I: raw} }

func VS(a int64, xs []int64, m map[string]int64, kids ...*Val) *Val {
	xv := VArr(TArr(TInt))
	for _, x := range xs {
		xv.Elems = append(xv.Elems, VInt(x))
	}
	mv := VDict(TDict(TString, TInt))
	var ks []string
	for k := range m {
		ks = append(ks, k)
	}
	sort.Strings(ks)
	for _, k := range ks {
		mv.Keys = append(mv.Keys, VStr(k))
		mv.Vals = append(mv.Vals, VInt(m[k]))
	}
	return &Val{T: TS, F: map[string]*Val{"a": VInt(a), "xs": xv, "m": mv, "kids": VArr(TArr(TS), kids...),
		"o": VNil(TOpt(TString)), "oa": VNil(TOpt(TArr(TInt)))}}
}

func (v *Val) Clone() *Val {
	if v == nil {
		return nil
	}
	c := &Val{T: v.T, I: v.I, S: v.S, B: v.B, U: v.U}
	for _, e := range v.Elems {
		c.Elems = append(c.Elems, e.Clone())
	}
	for _, e := range v.Keys {
		c.Keys = append(c.Keys, e.Clone())
	}
	for _, e := range v.Vals {
		c.Vals = append(c.Vals, e.Clone())
	}
	c.Opt = v.Opt.Clone()
	if v.F != nil {
		c.F = map[string]*Val{}
		for k, f := range v.F {
			c.F[k] = f.Clone()
		}
	}
	if v.Atts != nil {
		c.Atts = map[string]*Val{}
		for k, f := range v.Atts {
			c.Atts[k] = f.Clone()
		}
	}
	return c
}

func (v *Val) DictGet(k *Val) (int, bool) {
	kc := k.Canon()
	for i, x := range v.Keys {
		if x.Canon() == kc {
			return i, true
		}
	}
	return -1, false
}

func (v *Val) DictSet(k, val *Val) (old *Val) {
	if i, ok := v.DictGet(k); ok {
		old = v.Vals[i]
		v.Vals[i] = val
		return old
	}
	v.Keys = append(v.Keys, k)
	v.Vals = append(v.Vals, val)
	return nil
}

func (v *Val) DictRemove(k *Val) (old *Val) {
	if i, ok := v.DictGet(k); ok {
		old = v.Vals[i]
		v.Keys = append(v.Keys[:i:i], v.Keys[i+1:]...)
		v.Vals = append(v.Vals[:i:i], v.Vals[i+1:]...)
		return old
	}
	return nil
}

var fieldOrder = map[string][]string{
	"S": {"a", "xs", "m", "kids", "o", "oa"},
}

// Canon renders the model value exactly as canon.go renders the exported cadence value.
func (v *Val) Canon() string {
	switch v.T.K {
	case "Int":
		return fmt.Sprintf("Int(%d)", v.I)
	case "UInt64":
		if v.U != "" {
			return "UInt64(‹" + v.U + "›)"
		}
		return fmt.Sprintf("UInt64(%d)", v.I)
	case "UInt8":
		return fmt.Sprintf("UInt8(%d)", v.I)
	case "String":
		return fmt.Sprintf("%q", v.S)
	case "Bool":
		return fmt.Sprintf("%v", v.B)
	case "Path":
		return v.S
	case "Address":
		return fmt.Sprintf("0x%016x", v.I)
	case "Type":
		return "Type<" + v.S + ">"
	case "Arr", "CArr":
		var parts []string
		for _, e := range v.Elems {
			parts = append(parts, e.Canon())
		}
		return "[" + strings.Join(parts, ", ") + "]"
	case "Dict":
		var parts []string
		for i := range v.Keys {
			parts = append(parts, v.Keys[i].Canon()+": "+v.Vals[i].Canon())
		}
		sort.Strings(parts)
		// NOTE: canon.go sorts by key canon; keys are unique, so sorting "k: v" strings gives the same order
		// unless one key is a prefix of another followed by ':'; keys here are ints or quoted strings, so it cannot happen.
		return "{" + strings.Join(parts, ", ") + "}"
	case "Opt":
		if v.Opt == nil {
			return "nil"
		}
		return "?(" + v.Opt.Canon() + ")"
	case "S":
		var parts []string
		for _, f := range fieldOrder["S"] {
			parts = append(parts, f+": "+v.F[f].Canon())
		}
		for _, an := range sortedKeys(v.Atts) {
			parts = append(parts, "$"+worldPrefix+an+": "+worldPrefix+an+"(n: "+v.Atts[an].F["n"].Canon()+")")
		}
		return worldPrefix + "S(" + strings.Join(parts, ", ") + ")"
	case "E":
		return fmt.Sprintf("%sE(rawValue: UInt8(%d))", worldPrefix, v.I)
	case "R":
		return v.Snap().Canon()
	case "Snap":
		order := []string{"uuid", "id", "n", "data", "kids", "named", "atts"}
		var parts []string
		for _, f := range order {
			parts = append(parts, f+": "+v.F[f].Canon())
		}
		return worldPrefix + "RSnap(" + strings.Join(parts, ", ") + ")"
	}
	return "<?" + v.T.K + ">"
}

func sortedKeys(m map[string]*Val) []string {
	var ks []string
	for k := range m {
		ks = append(ks, k)
	}
	sort.Strings(ks)
	return ks
}

// Snap is the model of World.R.snap().
func (v *Val) Snap() *Val {
	kids := VArr(TArr(&Ty{K: "Snap"}))
	for _, k := range v.F["kids"].Elems {
		kids.Elems = append(kids.Elems, k.Snap())
	}
	named := VDict(TDict(TString, &Ty{K: "Snap"}))
	nm := v.F["named"]
	for i := range nm.Keys {
		named.Keys = append(named.Keys, nm.Keys[i])
		named.Vals = append(named.Vals, nm.Vals[i].Snap())
	}
	if o := v.F["opt"]; o != nil && o.Opt != nil {
		named.Keys = append(named.Keys, VStr("$opt"))
		named.Vals = append(named.Vals, o.Opt.Snap())
	}
	atts := VDict(TDict(TString, TInt))
	for _, an := range sortedKeys(v.Atts) {
		f := "n"
		if an == "B" {
			f = "m"
		}
		atts.Keys = append(atts.Keys, VStr(an))
		atts.Vals = append(atts.Vals, v.Atts[an].F[f])
	}
	return &Val{T: &Ty{K: "Snap"}, F: map[string]*Val{
		"uuid": {T: &Ty{K: "UInt64"}, U: v.U}, "id": v.F["id"], "n": v.F["n"], "data": v.F["data"], "kids": kids, "named": named, "atts": atts,
	}}
}

// NewR is the model of `create R(id)`.
func NewR(id int64, u string) *Val {
	return &Val{T: TR, U: u, F: map[string]*Val{
		"id": VInt(id), "n": VInt(0), "kids": VArr(TArr(TR)), "named": VDict(TDict(TString, TR)), "data": VArr(TArr(TInt)), "opt": VNil(TOpt(TR)),
	}}
}

// Lit renders a non-resource model value as a Cadence expression of exactly its static type.
func (v *Val) Lit() string {
	switch v.T.K {
	case "Int":
		if v.I < 0 {
			return fmt.Sprintf("(%d)", v.I)
		}
		return fmt.Sprintf("%d", v.I)
	case "UInt64":
		return fmt.Sprintf("%d", v.I)
	case "String":
		return fmt.Sprintf("%q", v.S)
	case "Bool":
		return fmt.Sprintf("%v", v.B)
	case "Arr", "CArr":
		var parts []string
		for _, e := range v.Elems {
			parts = append(parts, e.Lit())
		}
		return "([" + strings.Join(parts, ", ") + "] as " + v.T.Src() + ")"
	case "Dict":
		var parts []string
		for i := range v.Keys {
			parts = append(parts, v.Keys[i].Lit()+": "+v.Vals[i].Lit())
		}
		return "({" + strings.Join(parts, ", ") + "} as " + v.T.Src() + ")"
	case "Opt":
		if v.Opt == nil {
			return "(nil as " + v.T.Src() + ")"
		}
		return "(" + v.Opt.Lit() + " as " + v.T.Src() + ")"
	case "S":
		return fmt.Sprintf("World.mkS(%s, %s, %s, %s, %s, %s)", v.F["a"].Lit(), v.F["xs"].Lit(), v.F["m"].Lit(), v.F["kids"].Lit(), v.F["o"].Lit(), v.F["oa"].Lit())
	case "E":
		return fmt.Sprintf("World.E(rawValue: %d)!", v.I)
	}
	panic("harness: no literal for " + v.T.K)
}

// CollectUUIDs appends the uuid placeholders of all resources in v (depth first).
func (v *Val) CollectUUIDs(out *[]string) {
	if v == nil {
		return
	}
	if v.T.K == "R" || v.T.K == "V" {
		*out = append(*out, v.U)
	}
	for _, e := range v.Elems {
		e.CollectUUIDs(out)
	}
	for _, e := range v.Vals {
		e.CollectUUIDs(out)
	}
	v.Opt.CollectUUIDs(out)
	for _, k := range sortedKeys(v.F) {
		v.F[k].CollectUUIDs(out)
	}
}

// CanonStored renders the model value as the exported stored value looks (resources with all their fields).
func (v *Val) CanonStored() string {
	switch v.T.K {
	case "R":
		parts := []string{
			"uuid: UInt64(‹" + v.U + "›)",
			"id: " + v.F["id"].Canon(),
			"n: " + v.F["n"].Canon(),
			"kids: " + v.F["kids"].CanonStored(),
			"named: " + v.F["named"].CanonStored(),
			"data: " + v.F["data"].Canon(),
			"opt: " + v.F["opt"].CanonStored(),
		}
		for _, an := range sortedKeys(v.Atts) {
			f := "n"
			if an == "B" {
				f = "m"
			}
			parts = append(parts, "$"+worldPrefix+an+": "+worldPrefix+an+"("+f+": "+v.Atts[an].F[f].Canon()+")")
		}
		return worldPrefix + "R(" + strings.Join(parts, ", ") + ")"
	case "V":
		return worldPrefix + "V(uuid: UInt64(‹" + v.U + "›), bal: " + v.F["bal"].Canon() + ")"
	case "Arr", "CArr":
		var parts []string
		for _, e := range v.Elems {
			parts = append(parts, e.CanonStored())
		}
		return "[" + strings.Join(parts, ", ") + "]"
	case "Dict":
		var parts []string
		for i := range v.Keys {
			parts = append(parts, v.Keys[i].Canon()+": "+v.Vals[i].CanonStored())
		}
		sort.Strings(parts)
		return "{" + strings.Join(parts, ", ") + "}"
	case "Opt":
		if v.Opt == nil {
			return "nil"
		}
		return "?(" + v.Opt.CanonStored() + ")"
	}
	return v.Canon()
}

func sortStrings(s []string) { sort.Strings(s) }

func hexs(s string) string { return fmt.Sprintf("%x", s) }

func DeployTx(name, code string) string {
	return fmt.Sprintf(`transaction { prepare(a: auth(Contracts) &Account) { a.contracts.add(name: %q, code: "%s".decodeHex()) } }`, name, hexs(code))
}

// ---------------------------------------------------------------------------------------------
// typed observation channel: one event + one emitting function per observable type (event parameters
// must be concrete storable types, so there is no single AnyStruct-typed observation event).

var obsTypes = []*Ty{
	TInt, TString, TBool, TU64, TU8, TS, TSnap,
	TArr(TInt), TArr(TString), TArr(TS), TArr(TArr(TInt)), TArr(TBool), TArr(TOpt(TInt)), TArr(TPath), TArr(TU64),
	TDict(TString, TInt), TDict(TInt, TString), TDict(TString, TArr(TInt)), TDict(TString, TS),
	TCArr(TInt, 3), TArr(TOpt(TString)), TArr(TOpt(TArr(TInt))),
	TArr(TArr(TU64)), TDict(TString, TArr(TU64)), TDict(TU64, TString),
}

func mangle(t *Ty) string {
	switch t.K {
	case "Arr":
		return "A_" + mangle(t.Elem)
	case "CArr":
		return fmt.Sprintf("C%d_%s", t.N, mangle(t.Elem))
	case "Dict":
		return "D_" + mangle(t.Key) + "_" + mangle(t.Elem)
	case "Opt":
		return "O_" + mangle(t.Elem)
	case "Snap":
		return "RSnap"
	}
	return t.K
}

func obsSupported(t *Ty) bool {
	if t.K == "E" || (t.K == "Arr" && t.Elem.K == "AnyStruct") {
		return true
	}
	for _, u := range obsTypes {
		if u.Equal(t) {
			return true
		}
	}
	return false
}

// ob renders the observation statement for an expression of static type t (or t? when opt).
func ob(tag string, t *Ty, opt bool, expr string) string {
	switch {
	case t.K == "E":
		if opt {
			return fmt.Sprintf("World.o_UInt8(%q, (%s)?.rawValue)", tag, expr)
		}
		return fmt.Sprintf("World.o_UInt8(%q, (%s).rawValue)", tag, expr)
	case t.K == "Arr" && t.Elem.K == "AnyStruct":
		return fmt.Sprintf("World.o_AnyArr(%q, %s)", tag, expr)
	}
	if !obsSupported(t) {
		panic("harness: no observation event for type " + t.Src())
	}
	return fmt.Sprintf("World.o_%s(%q, %s)", mangle(t), tag, expr)
}

var WorldSrc = func() string {
	var sb strings.Builder
	for _, t := range obsTypes {
		m := mangle(t)
		fmt.Fprintf(&sb, "    access(all) event O_%s(tag: String, v: %s?)\n", m, t.Src())
		fmt.Fprintf(&sb, "    access(all) fun o_%s(_ tag: String, _ v: %s?) { emit O_%s(tag: tag, v: v) }\n", m, t.Src(), m)
	}
	sb.WriteString(`    access(all) fun o_AnyArr(_ tag: String, _ v: [AnyStruct]?) {
        if v == nil { emit O_A_String(tag: tag, v: nil); return }
        let out: [String] = []
        for e in v! {
            if let i = e as? Int { out.append("Int(".concat(i.toString()).concat(")")) }
            else if let s = e as? String { out.append("\"".concat(s).concat("\"")) }
            else if let b = e as? Bool { out.append(b ? "true" : "false") }
            else { out.append("?") }
        }
        emit O_A_String(tag: tag, v: out)
    }
`)
	return strings.Replace(worldStatic, "//OBS//\n", sb.String(), 1)
}()

// ObsCanon renders the model value as its observation looks (see ob).
func (v *Val) ObsCanon() string {
	switch {
	case v.T.K == "E":
		return fmt.Sprintf("UInt8(%d)", v.I)
	case v.T.K == "Arr" && v.T.Elem.K == "AnyStruct":
		var parts []string
		for _, e := range v.Elems {
			d := e.Canon()
			if e.T.K == "String" {
				d = "\"" + e.S + "\""
			}
			parts = append(parts, fmt.Sprintf("%q", d))
		}
		return "[" + strings.Join(parts, ", ") + "]"
	}
	return v.Canon()
}
