package main

// C44 "value zoo": a seeded generator of storable values of every kind the property names (numbers of every numeric type at
// their boundaries, strings, characters, addresses, paths, capabilities, controllers, published values, type values over every
// static-type kind, nested containers, composites, attachments, ranges), each with
//   - the Cadence statement that stores it,
//   - an in-language verification (evaluated by a later script, after commit and restart: decode(encode(v)) == v),
//   - where it can be predicted without looking at the implementation, the canonical rendering ReadStored must give.

import (
	"fmt"
	"math/big"
	"sort"
	"strings"

	"golang.org/x/text/unicode/norm"
)

const ZooAddr = 5  // account of the Zoo contract
const ZooOwner = 6 // account whose storage holds the zoo

const zooSrc = `
access(all) contract Zoo {
    access(all) entitlement X
    access(all) entitlement Y
    access(all) entitlement mapping M { X -> Y }

    access(all) struct interface SI { access(all) fun tag(): String }
    access(all) struct interface SJ {}
    access(all) resource interface RI { access(all) let n: Int }

    access(all) struct S: SI, SJ {
        access(all) let a: Int
        access(all) let b: String
        init(_ a: Int, _ b: String) { self.a = a; self.b = b }
        access(all) fun tag(): String { return self.b }
    }

    access(all) struct Wide {
        access(all) let f01: Int8
        access(all) let f02: UInt64
        access(all) let f03: String
        access(all) let f04: Bool
        access(all) let f05: Address
        access(all) let f06: [UInt8]
        access(all) let f07: {String: Int}
        access(all) let f08: S
        access(all) let f09: Int?
        access(all) let f10: UFix64
        access(all) let f11: StoragePath
        access(all) let f12: Type
        access(all) let f13: Character
        access(all) let f14: E
        init(_ k: Int8, _ s: String) {
            self.f01 = k; self.f02 = 18446744073709551615; self.f03 = s; self.f04 = k % 2 == 0; self.f05 = 0x6
            self.f06 = [1, 2, 255]; self.f07 = {"one": 1, "two": 2}; self.f08 = S(Int(k), s); self.f09 = k > 0 ? Int(k) : nil
            self.f10 = 1.25; self.f11 = /storage/wide; self.f12 = Type<Int8>(); self.f13 = "w"; self.f14 = E.b
        }
    }

    access(all) enum E: UInt8 {
        access(all) case a
        access(all) case b
        access(all) case c
    }
    access(all) enum BigE: Int256 {
        access(all) case lo
        access(all) case hi
    }

    access(all) resource R: RI {
        access(all) let n: Int
        access(all) var kids: @[R]
        access(all) var named: @{String: R}
        access(all) var opt: @R?
        init(_ n: Int) { self.n = n; self.kids <- []; self.named <- {}; self.opt <- nil }
        access(all) fun add(_ r: @R) { self.kids.append(<-r) }
        access(all) fun put(_ k: String, _ r: @R) { let old <- self.named[k] <- r; destroy old }
        access(all) fun setOpt(_ r: @R) { let old <- self.opt <- r; destroy old }
        access(X) fun secret(): Int { return self.n }
    }

    access(all) attachment At for R {
        access(all) let k: Int
        init(_ k: Int) { self.k = k }
    }
    access(all) attachment SAt for S {
        access(all) let k: String
        init(_ k: String) { self.k = k }
    }

    access(all) var stored: {String: AnyStruct}
    access(all) var counter: UInt32

    access(all) fun mkR(_ n: Int): @R { return <- create R(n) }
    access(all) fun put(_ k: String, _ v: AnyStruct) { self.stored[k] = v; self.counter = self.counter + 1 }

    init() { self.stored = {}; self.counter = 0 }
}
`

type ZooEntry struct {
	Name   string `json:"name"`   // storage path identifier (or a label for non-path entries)
	Store  string `json:"store"`  // statements (in `prepare(s: auth(Storage, Capabilities, Inbox) &Account)`)
	Verify string `json:"verify"` // statements appending to `bad` when the value is not what was stored (script, `a` = the account)
	Canon  string `json:"canon,omitempty"` // predicted ReadStored rendering ("" = not predicted)
	Kind   string `json:"kind"`
}

type zooGen struct {
	r    *Rng
	n    int
	caps int // capability ids issued so far in the owner account (ids start at 1)
	out  []ZooEntry
}

func zooTypeID(name string) string { return fmt.Sprintf("A.%016x.Zoo.%s", ZooAddr, name) }

func (g *zooGen) path() string { g.n++; return fmt.Sprintf("z%d", g.n) }

// plain adds a struct-kinded entry stored with save and verified through copy<T> and `==`.
func (g *zooGen) plain(kind, typ, expr, canon string) {
	p := g.path()
	g.out = append(g.out, ZooEntry{
		Name: p, Kind: kind, Canon: canon,
		Store:  fmt.Sprintf("s.storage.save<%s>(%s, to: /storage/%s)", typ, expr, p),
		Verify: fmt.Sprintf("if let v = a.storage.copy<%s>(from: /storage/%s) { if !(v == %s) { bad.append(\"%s\") } } else { bad.append(\"%s:missing\") }", typ, p, expr, p, p),
	})
}

// custom adds an entry with its own verification expression over `v` (a copy typed T).
func (g *zooGen) custom(kind, typ, expr, verifyExpr, canon string) {
	p := g.path()
	g.out = append(g.out, ZooEntry{
		Name: p, Kind: kind, Canon: canon,
		Store:  fmt.Sprintf("s.storage.save<%s>(%s, to: /storage/%s)", typ, expr, p),
		Verify: fmt.Sprintf("if let v = a.storage.copy<%s>(from: /storage/%s) { if !(%s) { bad.append(\"%s\") } } else { bad.append(\"%s:missing\") }", typ, p, verifyExpr, p, p),
	})
}

type intKind struct {
	name   string
	bits   int
	signed bool
}

var zooIntKinds = []intKind{
	{"Int8", 8, true}, {"Int16", 16, true}, {"Int32", 32, true}, {"Int64", 64, true}, {"Int128", 128, true}, {"Int256", 256, true},
	{"UInt8", 8, false}, {"UInt16", 16, false}, {"UInt32", 32, false}, {"UInt64", 64, false}, {"UInt128", 128, false}, {"UInt256", 256, false},
	{"Word8", 8, false}, {"Word16", 16, false}, {"Word32", 32, false}, {"Word64", 64, false}, {"Word128", 128, false}, {"Word256", 256, false},
}

func (g *zooGen) bigRand(bits int) *big.Int {
	x := new(big.Int)
	for i := 0; i < (bits+63)/64; i++ {
		x.Lsh(x, 64)
		x.Or(x, new(big.Int).SetUint64(g.r.U64()))
	}
	return x.Rsh(x, uint(((bits+63)/64)*64-bits))
}

// intValue draws a value of the kind, biased to the boundaries.
func (g *zooGen) intValue(k intKind) *big.Int {
	one := big.NewInt(1)
	max := new(big.Int).Lsh(one, uint(k.bits))
	min := big.NewInt(0)
	if k.signed {
		max = new(big.Int).Lsh(one, uint(k.bits-1))
		min = new(big.Int).Neg(max)
	}
	max.Sub(max, one)
	switch g.r.Intn(8) {
	case 0:
		return min
	case 1:
		return max
	case 2:
		return big.NewInt(0)
	case 3:
		if k.signed {
			return big.NewInt(-1)
		}
		return big.NewInt(1)
	case 4:
		return new(big.Int).Sub(max, big.NewInt(int64(g.r.Intn(100))))
	case 5:
		// small magnitude: crosses the CBOR 1/2/3/5/9-byte integer heads
		v := big.NewInt(int64([]int{23, 24, 255, 256, 65535, 65536}[g.r.Intn(6)]))
		if v.Cmp(max) > 0 {
			return max
		}
		return v
	}
	x := g.bigRand(k.bits)
	if k.signed {
		x.Add(x, min)
	}
	return x
}

func (g *zooGen) arbInt() *big.Int {
	x := g.bigRand(8 * (1 + g.r.Intn(40)))
	if g.r.Chance(0.5) {
		x.Neg(x)
	}
	return x
}

// fixed-point text with exactly `scale` fractional digits from an integer of units
func fixText(units *big.Int, scale int) string {
	neg := units.Sign() < 0
	s := new(big.Int).Abs(units).String()
	for len(s) <= scale {
		s = "0" + s
	}
	s = s[:len(s)-scale] + "." + s[len(s)-scale:]
	if neg {
		s = "-" + s
	}
	return s
}

func cdcString(s string) string {
	var sb strings.Builder
	sb.WriteByte('"')
	for _, c := range s {
		switch {
		case c == '"':
			sb.WriteString(`\"`)
		case c == '\\':
			sb.WriteString(`\\`)
		case c == '\n':
			sb.WriteString(`\n`)
		case c == '\t':
			sb.WriteString(`\t`)
		case c >= 0x20 && c < 0x7f:
			sb.WriteRune(c)
		default:
			fmt.Fprintf(&sb, `\u{%x}`, c)
		}
	}
	sb.WriteByte('"')
	return sb.String()
}

var zooStrings = []string{"", "a", "hello world", "quote\"back\\slash\nnl\ttab", "café", "café", "\U0001F600", "\U0001F1E9\U0001F1EA", "中文", "\u0000", "ẹ́"}

// str draws a string. The language defines a string by its NFC-normalized form, so the generator returns that form
// (the literal written into the program may still be the unnormalized one, see strLit).
func (g *zooGen) str() string { return norm.NFC.String(g.rawStr()) }

func (g *zooGen) rawStr() string {
	switch g.r.Intn(4) {
	case 0:
		// slab-sized
		n := 200 + g.r.Intn(900)
		var sb strings.Builder
		for sb.Len() < n {
			sb.WriteString(zooStrings[1+g.r.Intn(len(zooStrings)-1)])
			sb.WriteByte(byte('a' + g.r.Intn(26)))
		}
		return sb.String()
	default:
		return zooStrings[g.r.Intn(len(zooStrings))]
	}
}

// anyVal: a random AnyStruct-typed value tree (expression, predicted canonical rendering)
func (g *zooGen) anyVal(depth int) (string, string) {
	n := 9
	if depth <= 0 {
		n = 6
	}
	switch g.r.Intn(n) {
	case 0:
		k := zooIntKinds[g.r.Intn(len(zooIntKinds))]
		v := g.intValue(k)
		return fmt.Sprintf("%s(%s)", k.name, v), fmt.Sprintf("%s(%s)", k.name, v)
	case 1:
		v := g.arbInt()
		return fmt.Sprintf("Int(%s)", v), fmt.Sprintf("Int(%s)", v)
	case 2:
		s := g.str()
		return cdcString(s), fmt.Sprintf("%q", s)
	case 3:
		b := g.r.Chance(0.5)
		return fmt.Sprint(b), fmt.Sprint(b)
	case 4:
		a := g.r.U64() >> uint(g.r.Intn(60))
		return fmt.Sprintf("(0x%x as Address)", a), fmt.Sprintf("0x%016x", a)
	case 5:
		if g.r.Chance(0.5) {
			return "(nil as Int?)", "nil"
		}
		u := new(big.Int).SetUint64(g.r.U64())
		return fmt.Sprintf("(%s as UFix64)", fixText(u, 8)), fmt.Sprintf("UFix64(%s)", fixText(u, 8))
	case 6:
		k := g.r.Intn(5)
		if g.r.Chance(0.15) {
			k = 30 + g.r.Intn(120)
		}
		var es, cs []string
		for i := 0; i < k; i++ {
			e, c := g.anyVal(depth - 1)
			es, cs = append(es, e), append(cs, c)
		}
		return "([" + strings.Join(es, ", ") + "] as [AnyStruct])", "[" + strings.Join(cs, ", ") + "]"
	case 7:
		k := g.r.Intn(5)
		if g.r.Chance(0.15) {
			k = 20 + g.r.Intn(60)
		}
		type kv struct{ k, v string }
		var es []string
		var kvs []kv
		for i := 0; i < k; i++ {
			key := fmt.Sprintf("k%d_%d", i, g.r.Intn(1000))
			e, c := g.anyVal(depth - 1)
			es = append(es, cdcString(key)+": "+e)
			kvs = append(kvs, kv{fmt.Sprintf("%q", key), c})
		}
		sort.Slice(kvs, func(i, j int) bool { return kvs[i].k < kvs[j].k })
		var cs []string
		for _, p := range kvs {
			cs = append(cs, p.k+": "+p.v)
		}
		return "({" + strings.Join(es, ", ") + "} as {String: AnyStruct})", "{" + strings.Join(cs, ", ") + "}"
	default:
		a := int64(g.r.Intn(2000)) - 1000
		s := g.str()
		return fmt.Sprintf("Zoo.S(%d, %s)", a, cdcString(s)), fmt.Sprintf("%s(a: Int(%d), b: %q)", zooTypeID("S"), a, s)
	}
}

// zooTypeExprs: one type expression per static-type kind (and several per kind where the encoding has variants)
var zooTypeExprs = []string{
	"Int", "Int8", "Int16", "Int32", "Int64", "Int128", "Int256", "UInt", "UInt8", "UInt16", "UInt32", "UInt64", "UInt128", "UInt256",
	"Word8", "Word16", "Word32", "Word64", "Word128", "Word256", "Fix64", "UFix64", "Fix128", "UFix128",
	"Number", "SignedNumber", "Integer", "SignedInteger", "FixedPoint", "SignedFixedPoint", "FixedSizeUnsignedInteger",
	"String", "Character", "Bool", "Address", "Void", "Never", "Type", "AnyStruct", "@AnyResource", "HashableStruct", "{StructStringer}",
	"AnyStructAttachment", "@AnyResourceAttachment",
	"Path", "StoragePath", "CapabilityPath", "PublicPath", "PrivatePath",
	"Block", "PublicKey", "HashAlgorithm", "SignatureAlgorithm", "AccountKey", "DeployedContract",
	"Account", "Account.Storage", "Account.Contracts", "Account.Keys", "Account.Inbox", "Account.Capabilities",
	"Account.StorageCapabilities", "Account.AccountCapabilities",
	"StorageCapabilityController", "AccountCapabilityController",
	"Int?", "Int??", "[Int]", "[[String]]", "[Int; 3]", "[[Int8; 2]; 0]", "{String: Int}", "{Address: [Bool]}", "{Zoo.E: {Int: String}}",
	"Zoo.S", "Zoo.Wide", "Zoo.E", "Zoo.BigE", "Zoo", "&Zoo.At", "&Zoo.SAt",
	"{Zoo.SI}", "@{Zoo.RI}", "{Zoo.SI, Zoo.SJ}",
	"&Int", "&[Int]", "&Zoo.R", "&{Zoo.RI}", "auth(Zoo.X) &Zoo.R", "auth(Zoo.X, Zoo.Y) &Zoo.R", "auth(Zoo.Y, Zoo.X) &Zoo.R", "auth(Zoo.X | Zoo.Y) &Zoo.R", "auth(Zoo.Y | Zoo.X) &{Zoo.RI}",
	"auth(Mutate) &[Int]", "auth(Insert, Remove) &{String: Int}", "auth(Remove, Mutate, Insert) &[String]", "auth(Storage, Contracts, Keys, Inbox, Capabilities) &Account", "auth(Storage) &Account", "auth(SaveValue | LoadValue) &Account", "&AnyStruct?", "(&AnyResource)?",
	"Capability", "Capability<&Zoo.R>", "Capability<auth(Zoo.X) &{Zoo.RI}>", "Capability<&Account>",
	"InclusiveRange<Int>", "InclusiveRange<UInt8>", "[InclusiveRange<Int64>]",
	"@Zoo.R", "@[Zoo.R]", "@{String: Zoo.R}", "@Zoo.R?",
	"Mutate", "Insert", "Storage", "Zoo.X",
}

func (g *zooGen) typeEntries() {
	// every type on its own path ...
	idx := g.r.Intn(len(zooTypeExprs))
	for k := 0; k < 6; k++ {
		t := zooTypeExprs[(idx+k*17)%len(zooTypeExprs)]
		if t == "Mutate" || t == "Insert" || t == "Storage" || t == "Zoo.X" {
			continue // entitlements are not types
		}
		g.plain("type", "Type", "Type<"+t+">()", "")
	}
	// ... and all of them in one array (several slabs) and as dictionary keys
	var all []string
	for _, t := range zooTypeExprs {
		if t == "Mutate" || t == "Insert" || t == "Storage" || t == "Zoo.X" {
			continue
		}
		all = append(all, "Type<"+t+">()")
	}
	g.plain("types-array", "[Type]", "["+strings.Join(all, ", ")+"]", "")
	var kvs []string
	for i, t := range all {
		kvs = append(kvs, fmt.Sprintf("%s: %d", t, i))
	}
	g.plain("types-dict", "{Type: Int}", "{"+strings.Join(kvs, ", ")+"}", "")
	// run-time constructed types
	g.plain("type-constructed", "[Type?]", `[OptionalType(Type<Int>()), VariableSizedArrayType(Type<String>()), ConstantSizedArrayType(type: Type<Bool>(), size: 4), DictionaryType(key: Type<String>(), value: Type<[Int]>()), CompositeType("`+zooTypeID("S")+`"), IntersectionType(types: ["`+zooTypeID("SI")+`"]), ReferenceType(entitlements: ["`+zooTypeID("X")+`"], type: Type<@Zoo.R>()), CapabilityType(Type<&Zoo.R>()), InclusiveRangeType(Type<Int>())]`, "")
}

func (g *zooGen) numberEntries() {
	for _, k := range zooIntKinds {
		if !g.r.Chance(0.6) {
			continue
		}
		v := g.intValue(k)
		g.plain("int", k.name, fmt.Sprintf("%s(%s)", k.name, v), fmt.Sprintf("%s(%s)", k.name, v))
	}
	for i := 0; i < 2; i++ {
		v := g.arbInt()
		g.plain("bigint", "Int", fmt.Sprintf("Int(%s)", v), fmt.Sprintf("Int(%s)", v))
	}
	u := g.bigRand(8 * (1 + g.r.Intn(40)))
	g.plain("biguint", "UInt", fmt.Sprintf("UInt(%s)", u), fmt.Sprintf("UInt(%s)", u))
	// fixed point: boundaries by name, interior by literal
	g.plain("fix", "Fix64", "Fix64.min", "Fix64(-92233720368.54775808)")
	g.plain("fix", "Fix64", "Fix64.max", "Fix64(92233720368.54775807)")
	g.plain("fix", "UFix64", "UFix64.max", "UFix64(184467440737.09551615)")
	g.plain("fix", "UFix64", "UFix64.min", "UFix64(0.00000000)")
	uf := new(big.Int).SetUint64(g.r.U64())
	g.plain("fix", "UFix64", "("+fixText(uf, 8)+" as UFix64)", "UFix64("+fixText(uf, 8)+")")
	sf := new(big.Int).SetInt64(int64(g.r.U64()))
	g.plain("fix", "Fix64", "("+fixText(sf, 8)+" as Fix64)", "Fix64("+fixText(sf, 8)+")")
	// 128-bit fixed point, 24 fractional digits
	f128 := g.bigRand(100)
	if g.r.Chance(0.5) {
		f128.Neg(f128)
	}
	g.plain("fix128", "Fix128", "Fix128.min", "")
	g.plain("fix128", "Fix128", "Fix128.max", "")
	g.plain("fix128", "UFix128", "UFix128.max", "")
	g.plain("fix128", "Fix128", "("+fixText(f128, 24)+" as Fix128)", "Fix128("+fixText(f128, 24)+")")
	g.plain("fix128", "UFix128", "("+fixText(new(big.Int).Abs(f128), 24)+" as UFix128)", "UFix128("+fixText(new(big.Int).Abs(f128), 24)+")")
}

func (g *zooGen) textEntries() {
	for i := 0; i < 3; i++ {
		s := g.str()
		g.plain("string", "String", cdcString(s), fmt.Sprintf("%q", s))
	}
	for _, c := range []string{"a", "é", "é", "\U0001F1E9\U0001F1EA", "中"} {
		if g.r.Chance(0.5) {
			g.custom("character", "Character", "("+cdcString(c)+" as Character)", "v == ("+cdcString(c)+" as Character)", fmt.Sprintf("Character(%q)", norm.NFC.String(c)))
		}
	}
	g.plain("bool", "Bool", "true", "true")
	g.plain("bool", "Bool", "false", "false")
	a := g.r.U64() >> uint(g.r.Intn(60))
	g.plain("address", "Address", fmt.Sprintf("(0x%x as Address)", a), fmt.Sprintf("0x%016x", a))
	id := fmt.Sprintf("p%d", g.r.Intn(100000))
	g.plain("path", "StoragePath", "/storage/"+id, "/storage/"+id)
	g.plain("path", "PublicPath", "/public/"+id, "/public/"+id)
	g.plain("path", "PrivatePath", "/private/"+id, "/private/"+id)
	g.plain("path", "Path", "(/public/"+id+" as Path)", "/public/"+id)
	g.plain("path", "CapabilityPath", "(/private/"+id+" as CapabilityPath)", "/private/"+id)
	g.plain("paths", "[Path]", "[/storage/"+id+", /public/x, /private/y]", "[/storage/"+id+", /public/x, /private/y]")
}

func (g *zooGen) optionalEntries() {
	g.plain("optional", "Int8??", "(Int8(5) as Int8??)", "?(?(Int8(5)))")
	g.plain("optional", "[String?]", `["a", nil, "b"]`, `[?("a"), nil, ?("b")]`)
	g.plain("optional", "{String: Int?}", `{"a": 1, "b": nil}`, `{"a": ?(Int(1)), "b": nil}`)
	g.plain("optional", "[Int]?", `[1, 2] as [Int]?`, `?([Int(1), Int(2)])`)
}

func (g *zooGen) containerEntries() {
	// typed arrays / constant-sized arrays / dictionaries over every hashable key kind
	n := 1 + g.r.Intn(6)
	if g.r.Chance(0.4) {
		n = 100 + g.r.Intn(400)
	}
	var es, cs []string
	for i := 0; i < n; i++ {
		v := int64(g.r.U64()>>40) - (1 << 23)
		es, cs = append(es, fmt.Sprint(v)), append(cs, fmt.Sprintf("Int32(%d)", v))
	}
	g.plain("array", "[Int32]", "["+strings.Join(es, ", ")+"]", "["+strings.Join(cs, ", ")+"]")
	g.plain("const-array", "[UInt8; 4]", "[1, 2, 3, 255]", "[UInt8(1), UInt8(2), UInt8(3), UInt8(255)]")
	g.plain("nested-array", "[[Int16]]", "[[1, 2], [], [-3]]", "[[Int16(1), Int16(2)], [], [Int16(-3)]]")
	g.plain("empty", "[String]", "[]", "[]")
	g.plain("empty", "{Int: Int}", "{}", "{}")
	g.plain("dict-int", "{Int: String}", `{1: "a", -2: "b", 300: "c"}`, `{Int(-2): "b", Int(1): "a", Int(300): "c"}`)
	g.plain("dict-addr", "{Address: Bool}", `{0x1: true, 0x2: false}`, `{0x0000000000000001: true, 0x0000000000000002: false}`)
	g.plain("dict-bool", "{Bool: Int8}", `{true: 1, false: 0}`, `{false: Int8(0), true: Int8(1)}`)
	g.plain("dict-char", "{Character: Int}", `{"a": 1, "b": 2}`, `{Character("a"): Int(1), Character("b"): Int(2)}`)
	g.plain("dict-path", "{StoragePath: Int}", `{/storage/a: 1, /storage/b: 2}`, `{/storage/a: Int(1), /storage/b: Int(2)}`)
	g.plain("dict-enum", "{Zoo.E: String}", `{Zoo.E.a: "a", Zoo.E.c: "c"}`, fmt.Sprintf(`{%s(rawValue: UInt8(0)): "a", %s(rawValue: UInt8(2)): "c"}`, zooTypeID("E"), zooTypeID("E")))
	g.plain("dict-ufix", "{UFix64: [Int]}", `{1.5: [1], 0.00000001: []}`, `{UFix64(0.00000001): [], UFix64(1.50000000): [Int(1)]}`)
	// a dictionary large enough to split into several slabs
	m := 40 + g.r.Intn(200)
	var des []string
	type kv struct{ k, v string }
	var dcs []kv
	for i := 0; i < m; i++ {
		k := fmt.Sprintf("key-%d-%d", i, g.r.Intn(100000))
		v := g.r.U64() >> uint(g.r.Intn(64))
		des = append(des, fmt.Sprintf("%q: %d", k, v))
		dcs = append(dcs, kv{fmt.Sprintf("%q", k), fmt.Sprintf("UInt64(%d)", v)})
	}
	sort.Slice(dcs, func(i, j int) bool { return dcs[i].k < dcs[j].k })
	var ds []string
	for _, p := range dcs {
		ds = append(ds, p.k+": "+p.v)
	}
	g.plain("dict-big", "{String: UInt64}", "{"+strings.Join(des, ", ")+"}", "{"+strings.Join(ds, ", ")+"}")
	for i := 0; i < 2; i++ {
		e, c := g.anyVal(3)
		p := g.path()
		g.out = append(g.out, ZooEntry{Name: p, Kind: "anystruct-tree", Canon: c,
			Store:  fmt.Sprintf("s.storage.save<AnyStruct>(%s, to: /storage/%s)", e, p),
			Verify: fmt.Sprintf("if a.storage.type(at: /storage/%s) == nil { bad.append(\"%s:missing\") }", p, p)})
	}
}

func (g *zooGen) compositeEntries() {
	a := int64(g.r.Intn(2000)) - 1000
	s := g.str()
	g.custom("struct", "Zoo.S", fmt.Sprintf("Zoo.S(%d, %s)", a, cdcString(s)), fmt.Sprintf("v.a == %d && v.b == %s && v.tag() == %s", a, cdcString(s), cdcString(s)),
		fmt.Sprintf("%s(a: Int(%d), b: %q)", zooTypeID("S"), a, s))
	k := int64(g.r.Intn(250)) - 125
	opt := "nil"
	if k > 0 {
		opt = fmt.Sprintf("?(Int(%d))", k)
	}
	g.custom("struct-wide", "Zoo.Wide", fmt.Sprintf("Zoo.Wide(%d, %s)", k, cdcString(s)),
		fmt.Sprintf(`v.f01 == %d && v.f02 == 18446744073709551615 && v.f03 == %s && v.f04 == (%d %% 2 == 0) && v.f05 == 0x6 && v.f06 == [1, 2, 255] && v.f07 == {"one": 1, "two": 2} && v.f08.a == %d && v.f08.b == %s && v.f09 == (%d > 0 ? %d : nil) && v.f10 == 1.25 && v.f11 == /storage/wide && v.f12 == Type<Int8>() && v.f13 == "w" && v.f14 == Zoo.E.b`, k, cdcString(s), k, k, cdcString(s), k, k),
		fmt.Sprintf(`%s(f01: Int8(%d), f02: UInt64(18446744073709551615), f03: %q, f04: %v, f05: 0x0000000000000006, f06: [UInt8(1), UInt8(2), UInt8(255)], f07: {"one": Int(1), "two": Int(2)}, f08: %s(a: Int(%d), b: %q), f09: %s, f10: UFix64(1.25000000), f11: /storage/wide, f12: Type<Int8>, f13: Character("w"), f14: %s(rawValue: UInt8(1)))`,
			zooTypeID("Wide"), k, s, k%2 == 0, zooTypeID("S"), k, s, opt, zooTypeID("E")))
	g.custom("enum", "Zoo.E", "Zoo.E.c", "v == Zoo.E.c && v.rawValue == 2", fmt.Sprintf("%s(rawValue: UInt8(2))", zooTypeID("E")))
	g.custom("enum-big", "Zoo.BigE", "Zoo.BigE.hi", "v == Zoo.BigE.hi && v.rawValue == 1", fmt.Sprintf("%s(rawValue: Int256(1))", zooTypeID("BigE")))
	g.custom("struct-attachment", "Zoo.S", `attach Zoo.SAt("k") to Zoo.S(7, "base")`, `v.a == 7 && v[Zoo.SAt] != nil && v[Zoo.SAt]!.k == "k"`, "")
	g.custom("struct-array", "[Zoo.S]", `[Zoo.S(1, "x"), Zoo.S(2, "y")]`, `v.length == 2 && v[0].a == 1 && v[1].b == "y"`,
		fmt.Sprintf(`[%s(a: Int(1), b: "x"), %s(a: Int(2), b: "y")]`, zooTypeID("S"), zooTypeID("S")))
	g.custom("interface-typed", "{Zoo.SI}", `Zoo.S(3, "i") as {Zoo.SI}`, `v.tag() == "i" && v.getType() == Type<Zoo.S>()`, fmt.Sprintf(`%s(a: Int(3), b: "i")`, zooTypeID("S")))
	// resources with nested resources in every container form and an attachment
	p := g.path()
	nk := 1 + g.r.Intn(4)
	if g.r.Chance(0.3) {
		nk = 30 + g.r.Intn(40)
	}
	g.out = append(g.out, ZooEntry{Name: p, Kind: "resource",
		Store: fmt.Sprintf(`let r%s <- attach Zoo.At(%d) to <- Zoo.mkR(100)
        var i%s = 0
        while i%s < %d { r%s.add(<- Zoo.mkR(i%s)); i%s = i%s + 1 }
        r%s.put("n", <- Zoo.mkR(7)); r%s.setOpt(<- Zoo.mkR(8))
        s.storage.save(<- r%s, to: /storage/%s)`, p, nk, p, p, nk, p, p, p, p, p, p, p, p),
		Verify: fmt.Sprintf(`if let v = a.storage.borrow<&Zoo.R>(from: /storage/%s) { if !(v.n == 100 && v.kids.length == %d && v.kids[%d].n == %d && v.named["n"]?.n == 7 && v.opt?.n == 8 && v[Zoo.At]?.k == %d) { bad.append("%s") } } else { bad.append("%s:missing") }`, p, nk, nk-1, nk-1, nk, p, p)})
	// the contract's own fields (contract storage domain)
	e, _ := g.anyVal(2)
	g.out = append(g.out, ZooEntry{Name: "contract-field-" + p, Kind: "contract-field",
		Store:  fmt.Sprintf(`Zoo.put("%s", [%s] as [AnyStruct])`, p, e),
		Verify: fmt.Sprintf(`if Zoo.stored["%s"] == nil { bad.append("contract-field-%s:missing") }`, p, p)})
}

func (g *zooGen) capabilityEntries() {
	// a target, storage capabilities with several borrow types, an account capability, tags, a retarget, a deletion;
	// capability values stored, published and put into the inbox
	tp := g.path()
	g.out = append(g.out, ZooEntry{Name: tp, Kind: "cap-target",
		Store:  fmt.Sprintf("s.storage.save(<- Zoo.mkR(55), to: /storage/%s)", tp),
		Verify: fmt.Sprintf(`if a.storage.borrow<&Zoo.R>(from: /storage/%s)?.n != 55 { bad.append("%s") }`, tp, tp)})
	issue := func(borrow string) (int, string) {
		g.caps++
		return g.caps, fmt.Sprintf("s.capabilities.storage.issue<%s>(/storage/%s)", borrow, tp)
	}
	id1, e1 := issue("&Zoo.R")
	p1 := g.path()
	g.out = append(g.out, ZooEntry{Name: p1, Kind: "capability",
		Store: fmt.Sprintf("s.storage.save(%s, to: /storage/%s)", e1, p1),
		Verify: fmt.Sprintf(`if let v = a.storage.copy<Capability<&Zoo.R>>(from: /storage/%s) { if !(v.id == %d && v.address == 0x%x && v.check() && v.borrow()!.n == 55) { bad.append("%s") } } else { bad.append("%s:missing") }`, p1, id1, ZooOwner, p1, p1)})
	id2, e2 := issue("auth(Zoo.X) &Zoo.R")
	p2 := g.path()
	g.out = append(g.out, ZooEntry{Name: p2, Kind: "capability-auth",
		Store: fmt.Sprintf(`let c%s = %s
        s.capabilities.storage.getController(byCapabilityID: c%s.id)!.setTag("tag-%s")
        s.storage.save(c%s, to: /storage/%s)`, p2, e2, p2, p2, p2, p2),
		Verify: fmt.Sprintf(`if let v = a.storage.copy<Capability<auth(Zoo.X) &Zoo.R>>(from: /storage/%s) { if !(v.id == %d && v.borrow()!.secret() == 55 && a.capabilities.storage.getController(byCapabilityID: %d)!.tag == "tag-%s" && a.capabilities.storage.getController(byCapabilityID: %d)!.borrowType == Type<auth(Zoo.X) &Zoo.R>() && a.capabilities.storage.getController(byCapabilityID: %d)!.target() == /storage/%s) { bad.append("%s") } } else { bad.append("%s:missing") }`, p2, id2, id2, p2, id2, id2, tp, p2, p2)})
	// published
	id3, e3 := issue("&{Zoo.RI}")
	pp := g.path()
	g.out = append(g.out, ZooEntry{Name: "public-" + pp, Kind: "published-capability",
		Store:  fmt.Sprintf("s.capabilities.publish(%s, at: /public/%s)", e3, pp),
		Verify: fmt.Sprintf(`if !(a.capabilities.get<&{Zoo.RI}>(/public/%s).id == %d && a.capabilities.borrow<&{Zoo.RI}>(/public/%s)?.n == 55 && a.capabilities.exists(/public/%s)) { bad.append("public-%s") }`, pp, id3, pp, pp, pp)})
	// inbox
	id4, e4 := issue("&Zoo.R")
	g.out = append(g.out, ZooEntry{Name: "inbox-" + pp, Kind: "inbox-published-value",
		Store:  fmt.Sprintf(`s.inbox.publish(%s, name: "in-%s", recipient: 0x7)`, e4, pp),
		Verify: fmt.Sprintf(`if a.capabilities.storage.getController(byCapabilityID: %d) == nil { bad.append("inbox-%s") }`, id4, pp)})
	// account capability + controller
	g.caps++
	id5 := g.caps
	p5 := g.path()
	g.out = append(g.out, ZooEntry{Name: p5, Kind: "account-capability",
		Store: fmt.Sprintf(`let ac%s = s.capabilities.account.issue<auth(Storage) &Account>()
        s.capabilities.account.getController(byCapabilityID: ac%s.id)!.setTag("acct-%s")
        s.storage.save(ac%s, to: /storage/%s)`, p5, p5, p5, p5, p5),
		Verify: fmt.Sprintf(`if let v = a.storage.copy<Capability<auth(Storage) &Account>>(from: /storage/%s) { if !(v.id == %d && v.check() && a.capabilities.account.getController(byCapabilityID: %d)!.tag == "acct-%s" && a.capabilities.account.getController(byCapabilityID: %d)!.borrowType == Type<auth(Storage) &Account>()) { bad.append("%s") } } else { bad.append("%s:missing") }`, p5, id5, id5, p5, id5, p5, p5)})
	// retargeted and deleted controllers
	id6, e6 := issue("&Zoo.R")
	g.out = append(g.out, ZooEntry{Name: "retarget-" + pp, Kind: "controller-retargeted",
		Store: fmt.Sprintf(`let rc%s = %s
        s.capabilities.storage.getController(byCapabilityID: rc%s.id)!.retarget(/storage/elsewhere%s)`, pp, e6, pp, pp),
		Verify: fmt.Sprintf(`if a.capabilities.storage.getController(byCapabilityID: %d)?.target() != /storage/elsewhere%s { bad.append("retarget-%s") }`, id6, pp, pp)})
	id7, e7 := issue("&Zoo.R")
	p7 := g.path()
	g.out = append(g.out, ZooEntry{Name: p7, Kind: "controller-deleted",
		Store: fmt.Sprintf(`let dc%s = %s
        s.capabilities.storage.getController(byCapabilityID: dc%s.id)!.delete()
        s.storage.save(dc%s, to: /storage/%s)`, p7, e7, p7, p7, p7),
		Verify: fmt.Sprintf(`if let v = a.storage.copy<Capability<&Zoo.R>>(from: /storage/%s) { if !(v.id == %d && !v.check() && a.capabilities.storage.getController(byCapabilityID: %d) == nil) { bad.append("%s") } } else { bad.append("%s:missing") }`, p7, id7, id7, p7, p7)})
	// an array of capabilities of different borrow types, typed `Capability`
	id8, e8 := issue("&Zoo.R")
	id9, e9 := issue("auth(Zoo.Y, Zoo.X) &Zoo.R")
	p8 := g.path()
	g.out = append(g.out, ZooEntry{Name: p8, Kind: "capability-array",
		Store: fmt.Sprintf("s.storage.save<[Capability]>([%s, %s], to: /storage/%s)", e8, e9, p8),
		Verify: fmt.Sprintf(`if let v = a.storage.copy<[Capability]>(from: /storage/%s) { if !(v.length == 2 && v[0].id == %d && v[1].id == %d && v[1].getType() == Type<Capability<auth(Zoo.Y, Zoo.X) &Zoo.R>>()) { bad.append("%s") } } else { bad.append("%s:missing") }`, p8, id8, id9, p8, p8)})
}

// GenZoo draws one zoo: the entries in storing order.
func GenZoo(seed uint64) []ZooEntry {
	g := &zooGen{r: NewRng(seed ^ 0x2004400)}
	g.numberEntries()
	g.textEntries()
	g.optionalEntries()
	g.containerEntries()
	g.compositeEntries()
	g.capabilityEntries()
	g.typeEntries()
	return g.out
}

func zooStoreTx(es []ZooEntry) string {
	var sb strings.Builder
	fmt.Fprintf(&sb, "import Zoo from 0x%x\ntransaction {\n    prepare(s: auth(Storage, Capabilities, Inbox) &Account) {\n", ZooAddr)
	for _, e := range es {
		sb.WriteString("        " + e.Store + "\n")
	}
	sb.WriteString("    }\n}\n")
	return sb.String()
}

func zooVerifyScript(es []ZooEntry) string {
	var sb strings.Builder
	fmt.Fprintf(&sb, "import Zoo from 0x%x\naccess(all) fun main(): [String] {\n    let a = getAuthAccount<auth(Storage, Capabilities) &Account>(0x%x)\n    let bad: [String] = []\n", ZooAddr, ZooOwner)
	for _, e := range es {
		sb.WriteString("    " + e.Verify + "\n")
	}
	sb.WriteString("    return bad\n}\n")
	return sb.String()
}

// zooChurnTx moves some stored values to new paths and removes others (so that the corpus ledgers also contain
// storage maps that shrank, and slabs that were freed).
func zooChurnTx(es []ZooEntry, r *Rng) (string, []ZooEntry) {
	var sb strings.Builder
	var kept []ZooEntry
	fmt.Fprintf(&sb, "import Zoo from 0x%x\ntransaction {\n    prepare(s: auth(Storage, Capabilities, Inbox) &Account) {\n", ZooAddr)
	for _, e := range es {
		movable := (e.Kind == "int" || e.Kind == "string" || e.Kind == "array" || e.Kind == "dict-big" || e.Kind == "bigint" || e.Kind == "anystruct-tree") && strings.HasPrefix(e.Name, "z")
		switch {
		case movable && r.Chance(0.3):
			fmt.Fprintf(&sb, "        let _%s = s.storage.load<AnyStruct>(from: /storage/%s)\n", e.Name, e.Name)
		case movable && r.Chance(0.3):
			np := e.Name + "m"
			fmt.Fprintf(&sb, "        s.storage.save(s.storage.load<AnyStruct>(from: /storage/%s)!, to: /storage/%s)\n", e.Name, np)
			ne := e
			ne.Name = np
			ne.Store = ""
			ne.Verify = strings.ReplaceAll(strings.ReplaceAll(e.Verify, "/storage/"+e.Name+")", "/storage/"+np+")"), "\""+e.Name, "\""+np)
			// the moved value was saved as AnyStruct: copy<T> still succeeds for its run-time type
			kept = append(kept, ne)
		default:
			kept = append(kept, e)
		}
	}
	sb.WriteString("    }\n}\n")
	return sb.String(), kept
}
