#!/bin/bash
# usage: tools/confirm_mutant.sh <seedout-dir> <name>  — confirms a seeded change in a scratch worktree of /repo HEAD:
# it builds, the existing tests of the touched packages and of ./runtime/... pass with it, the demonstration fails with it and passes without.
# Writes <seedout-dir>/confirmation.txt. The scratch worktree is removed afterwards.
set -u
SRC="$1"; NAME="$2"; WT=/tmp/wt/confirm_$NAME; LOG="$SRC/confirmation.txt"
export GOFLAGS=-mod=mod GOPROXY=off
exec > "$LOG" 2>&1
git -C /repo worktree add -q --detach "$WT" HEAD || exit 2
cd "$WT"
git apply "$SRC/patch.diff" || { echo "PATCH-FAILS"; cd /; git -C /repo worktree remove --force "$WT"; exit 2; }
PKGS=$(git diff --name-only | xargs -n1 dirname | sort -u | sed 's|^|./|' | tr '\n' ' ')
echo "repo HEAD: $(git -C /repo rev-parse --short HEAD); touched packages: $PKGS"
go build ./... && echo BUILD-OK || echo BUILD-FAIL
go test -vet=off -count=1 $PKGS ./runtime/... ./interpreter/... ./bbq/... ./stdlib/... ./sema/... > existing.log 2>&1; echo "EXISTING-TESTS exit=$? (with change; touched packages + runtime, interpreter, bbq, stdlib, sema)"; grep -E "^(FAIL|---)" existing.log | head -20
DEMOPKG=$(python3 -c "import json;print(json.load(open('$SRC/agent_meta.json')).get('demo_package','runtime').strip('./'))" 2>/dev/null || echo runtime)
for f in "$SRC"/*_test.go; do
  [ -f "$f" ] || continue
  base=$(basename "$f"); dest="$DEMOPKG/zz_${base#*zz_}"
  case "$base" in
    interpreter_zz*) dest=interpreter/${base#interpreter_};;
    runtime_zz*) dest=runtime/${base#runtime_};;
  esac
  cp "$f" "$dest"; echo "demo -> $dest"
done
DEMOPK=$(git status --short | grep '^??' | awk '{print $2}' | grep _test.go | xargs -n1 dirname | sort -u | sed 's|^|./|' | tr '\n' ' ')
go test -vet=off -count=1 -run 'ZZ|Demo|C[0-9][0-9][a-z]' $DEMOPK > demo_with.log 2>&1; echo "DEMO-WITH-CHANGE exit=$?"; grep -E "^(ok|FAIL|--- FAIL)" demo_with.log | head
git apply -R "$SRC/patch.diff"
go test -vet=off -count=1 -run 'ZZ|Demo|C[0-9][0-9][a-z]' $DEMOPK > demo_without.log 2>&1; echo "DEMO-WITHOUT-CHANGE exit=$?"; grep -E "^(ok|FAIL|--- FAIL)" demo_without.log | head
cd /; git -C /repo worktree remove --force "$WT"
echo DONE
