#!/bin/bash
# usage: tools/confirm_mutant.sh <seedout-dir> <name>  — confirms in a scratch worktree: builds, existing tests pass, demo fails with / passes without.
set -u
SRC="$1"; NAME="$2"; WT=/tmp/wt/confirm_$NAME; LOG=/tmp/seedout/confirm_$NAME.log
export GOFLAGS=-mod=mod GOPROXY=off
exec > "$LOG" 2>&1
git -C /repo worktree add -q --detach "$WT" HEAD || exit 2
cd "$WT"
git apply "$SRC/patch.diff" || { echo "PATCH-FAILS"; exit 2; }
PKGS=$(git diff --name-only | xargs -n1 dirname | sort -u | sed 's|^|./|' | tr '\n' ' ')
echo "touched packages: $PKGS"
go build ./... && echo BUILD-OK || echo BUILD-FAIL
go test -vet=off -count=1 $PKGS ./runtime/... > existing.log 2>&1; echo "EXISTING-TESTS exit=$? (with change)"; grep -E "^(ok|FAIL|---)" existing.log | head -20
# demo
for f in "$SRC"/*_test.go; do
  [ -f "$f" ] || continue
  base=$(basename "$f")
  case "$base" in
    interpreter_*) dest=interpreter/${base#interpreter_};;
    runtime_*) dest=runtime/${base#runtime_};;
    *) dest=runtime/$base;;
  esac
  cp "$f" "$dest"; echo "demo -> $dest"
done
DEMOPK=$(ls interpreter/zz_* runtime/zz_* 2>/dev/null | xargs -n1 dirname | sort -u | sed 's|^|./|' | tr '\n' ' ')
go test -vet=off -count=1 -run 'ZZ|Demo|C[0-9][0-9]a' $DEMOPK > demo_with.log 2>&1; echo "DEMO-WITH-CHANGE exit=$?"; grep -E "^(ok|FAIL|--- FAIL)" demo_with.log | head
git apply -R "$SRC/patch.diff"
go test -vet=off -count=1 -run 'ZZ|Demo|C[0-9][0-9]a' $DEMOPK > demo_without.log 2>&1; echo "DEMO-WITHOUT-CHANGE exit=$?"; grep -E "^(ok|FAIL|--- FAIL)" demo_without.log | head
cd /; git -C /repo worktree remove --force "$WT"
echo DONE
