#!/bin/bash
# usage: tools/gen_c44_corpus.sh [<rev>]   — (re)generates /verif/corpus/c44 with a simulator built against a scratch worktree
# of the PINNED commit of /repo (default: the root "snapshot" commit) plus the verif hooks file. Nothing of the current tree is used
# to write the corpus; the current tree only reads it (./check C44). The scratch worktree and binary are removed afterwards.
set -eu
cd "$(dirname "$0")/.."
export GOFLAGS=-mod=mod GOPROXY=off
unset GOTOOLCHAIN GOSUMDB 2>/dev/null || true
REV="${1:-$(git -C /repo rev-list --max-parents=0 HEAD | tail -1)}"
WT=$(mktemp -d /var/tmp/c44-pinned.XXXXXX); rmdir "$WT"
git -C /repo worktree add -q --detach "$WT" "$REV"
trap 'git -C /repo worktree remove --force "$WT" 2>/dev/null; rm -f /var/tmp/c44-pinned.mod /var/tmp/c44-pinned.sum /var/tmp/sim.c44pinned' EXIT
# the hooks file is add-only and build-tag guarded; it is the only thing taken from a later commit
git -C /repo show HEAD:runtime/verif_hooks.go > "$WT/runtime/verif_hooks.go"
sed "s|=> /repo|=> $WT|" sim/go.mod > /var/tmp/c44-pinned.mod
cp sim/go.sum /var/tmp/c44-pinned.sum
( cd sim && go build -modfile=/var/tmp/c44-pinned.mod -tags verif -o /var/tmp/sim.c44pinned . )
rm -rf corpus/c44.new; mkdir -p corpus/c44.new
/var/tmp/sim.c44pinned c44gen -out corpus/c44.new -rev "$(git -C /repo rev-parse --short "$REV")" "${@:2}"
rm -rf corpus/c44; mv corpus/c44.new corpus/c44
du -sh corpus/c44; ls corpus/c44 | wc -l
