#!/bin/bash
# usage: tools/import_seeded.sh <name>...  — keeps a delivered and confirmed seeded change under seeded/<name>/
cd "$(dirname "$0")/.."
for n in "$@"; do
  src=/tmp/seedout/$n
  grep -q "DEMO-WITH-CHANGE exit=1" $src/confirmation.txt && grep -q "DEMO-WITHOUT-CHANGE exit=0" $src/confirmation.txt && grep -q "EXISTING-TESTS exit=0" $src/confirmation.txt && grep -q BUILD-OK $src/confirmation.txt || { echo "$n: NOT confirmed, skipped"; continue; }
  mkdir -p seeded/$n
  cp $src/patch.diff $src/agent_meta.json $src/confirmation.txt seeded/$n/
  cp $src/demo.md seeded/$n/ 2>/dev/null
  cp $src/*_test.go seeded/$n/ 2>/dev/null
  echo "$n: imported"
done
