#!/usr/bin/env python3
"""Generates /verif/MANIFEST.json from the table below (single source of truth for what is claimed)."""
import json, os, subprocess
ROOT = os.path.dirname(os.path.dirname(os.path.abspath(__file__)))

PLAN = "seeded deterministic simulation of host + replicas with fault injection; reference-model conformance and replica agreement oracles; ddmin-shrunk replayable plans"
NOTE = "Trusted base: the simulated host (sim/host.go) stays inside the legal-host envelope of DESIGN.md §4; the reference model (sim/model.go, ops_*.go) is transcribed from the language reference; atree and the Go runtime are real but not under test. Sampling, not proof: the program space is the operation library x histories."

# id -> (level category, technique, text, design_ref)
CLAIMED = {
 "C22": ("exploration", PLAN, "Seeded histories of typed storage operations (save/load/copy/borrow/check/type/storagePaths/forEachStored) over 2-3 accounts, with aborts (own panics, injected host errors/panics, metering limits), restarts and cache evictions, on interpreter and VM replicas; every observation is compared with an executable map model, the committed ledger is read back through ReadStored and through the raw storage maps.", "§7 C22"),
}

NA_PURE = {
 "C03": "checker verdict on a program is a pure function of the source; needs program enumeration against a static oracle, no schedule/fault/history involved",
 "C04": "reference invalidation is single-execution language semantics over generated programs; no host interaction beyond C34's differential",
 "C06": "set algebra over entitlement sets and mappings: pure function of its inputs",
 "C07": "purity is decided by the checker on program text; the run-time half is single-execution program generation",
 "C08": "subtype relations on pairs/triples of types: pure",
 "C09": "cast vs isInstance on (value, type) pairs: pure",
 "C10": "condition enforcement is per-call language semantics over generated programs (engine differences on the library's interfaces are seen by C34)",
 "C11": "integer arithmetic: pure function of operands",
 "C12": "word arithmetic: pure",
 "C13": "saturating arithmetic: pure",
 "C14": "bitwise operations: pure",
 "C15": "fixed-point arithmetic: pure",
 "C16": "numeric conversions: pure",
 "C17": "string/byte round-trips of numbers: pure",
 "C18": "equality/order/hash laws: pure",
 "C19": "string functions vs grapheme model: pure",
 "C21": "range iteration/membership: pure",
 "C29": "argument validation is a function of (argument bytes, parameter type)",
 "C32": "metering estimate vs result size of big-integer operations: pure",
 "C37": "totality of lexer/parser/checker over byte strings is input fuzzing; no schedule, fault or history in the statement",
 "C38": "print/re-parse round-trip: pure",
 "C39": "formatter idempotence and preservation: pure",
 "C40": "literal denotation: pure",
 "C41": "JSON-CDC round-trip and decoder robustness: pure",
 "C42": "CCF round-trip/canonicity/robustness: pure",
 "C43": "JSON-CDC vs CCF agreement: pure",
 "C45": "type identity across representations: pure",
 "C46": "RLP decoding: pure",
 "C47": "uniformity is a statement about the whole distribution of source bytes and needs exhaustive enumeration (model checking), not seeded sampling of schedules and faults",
 "C50": "access checks are checker verdicts on program text: pure",
 "C52": "evaluation order is single-execution language semantics; no fault or history involved",
}

# designed in DESIGN.md §7 but not claimed (DESIGN.md §13): nothing is asserted about these
NA_UNCLAIMED = {
 "C51": "the collections are pure in-memory functions of the operation sequence: no schedule, clock, I/O, fault or history is involved (the interval tree's math/rand priorities only change the tree shape); that is a model-based property test, not a simulation target. A seeded model comparison exists as a development aid (sim/c51.go; it led to fix 27e5e94) but is not claimed",
}

def main():
    props = [json.loads(l) for l in open(os.path.join(ROOT, "properties.jsonl"))]
    ids = [p["id"] for p in props]
    extra = {}
    ep = os.path.join(ROOT, "tools", "claimed.json")
    if os.path.exists(ep):
        extra = json.load(open(ep))
    claimed = dict(CLAIMED)
    for k, v in extra.items():
        claimed[k] = tuple(v)
    checks, na = [], []
    for i in ids:
        if i in claimed:
            cat, tech, text, ref = claimed[i]
            checks.append({
                "property_id": i,
                "quick_cmd": f"./check {i} quick",
                "thorough_cmd": f"./check {i} thorough",
                "evidence_file": f"/verif/evidence/{i}.json",
                "replay_cmd_template": "./bin/sim replay {path}",
                "engine": "sim",
                "level_claimed": {"category": cat, "text": text, "design_ref": "DESIGN.md " + ref},
                "level_note": NOTE,
                "technique": tech,
            })
        elif i in NA_PURE:
            na.append({"property_id": i, "reason": NA_PURE[i]})
        elif i in NA_UNCLAIMED:
            na.append({"property_id": i, "reason": NA_UNCLAIMED[i]})
        else:
            na.append({"property_id": i, "reason": "not claimed yet: the check for this property is still being built (see DESIGN.md §7); nothing is asserted about it"})
    hooks_commits = subprocess.run(["git", "-C", "/repo", "log", "--format=%H", "--grep=^verif:"], capture_output=True, text=True).stdout.split()
    m = {
        "version": 1,
        "setup_cmd": "./build.sh",
        "hooks": {
            "guard": "verif (Go build tag)",
            "enable": "go build -tags verif (see build.sh); hooks live in /repo/runtime/verif_hooks.go",
            "baseline_off_cmd": "cd /repo && GOFLAGS=-mod=mod GOPROXY=off go test -vet=off -count=1 -timeout 25m ./...",
            "source_commits": hooks_commits,
            "add_only": True,
        },
        "engines": [{
            "name": "sim",
            "path": "/verif/sim",
            "serves_properties": sorted(claimed),
            "kind_free_text": "deterministic simulation of a Flow-like host and N Cadence replicas in one process: seeded plans, fault injection through runtime.Interface and the metering gauges, executable reference model, replica agreement, ddmin shrinking, replay files",
        }],
        "checks": checks,
        "not_applicable": na,
        "notes": "One binary (bin/sim) built from /verif/sim against /repo's working tree with -tags verif. Known findings are listed in /verif/known_findings.json. See DESIGN.md.",
    }
    json.dump(m, open(os.path.join(ROOT, "MANIFEST.json"), "w"), indent=1)
    print("claimed:", len(checks), "not_applicable:", len(na))

main()
