#!/usr/bin/env python3
"""Renders the table 'which checks catch which seeded changes' from seeded/*/meta.json into DESIGN.md (between the two markers)."""
import json, os, re
ROOT = os.path.dirname(os.path.dirname(os.path.abspath(__file__)))
rows = []
for d in sorted(os.listdir(os.path.join(ROOT, "seeded"))):
    mp = os.path.join(ROOT, "seeded", d, "meta.json")
    if not os.path.exists(mp):
        continue
    m = json.load(open(mp))
    c = m["confirmed_by_me"]
    conf = "yes" if all(c[k] for k in ("builds", "existing_tests_pass_with_change", "demo_fails_with_change", "demo_passes_without_change")) else "NO"
    caught = ", ".join(x["check"].split()[1] for x in m["detections"] if x["caught"]) or "—"
    missed = ", ".join(x["check"].split()[1] for x in m["detections"] if not x["caught"] and x["exit"] == 0)
    what = re.sub(r"\s+", " ", (m.get("what_changed") or ""))[:150].replace("|", "/")
    needs = re.sub(r"\s+", " ", (m.get("needs_to_manifest") or ""))[:110].replace("|", "/")
    rows.append(f"| {d} | {m['breaks_property']} | {', '.join(m.get('files') or [])} | {what}… | {needs}… | {conf} | {caught} | {missed or '—'} |")
table = "| id | property | files | change | needs | confirmed | caught by (quick) | quiet |\n|---|---|---|---|---|---|---|---|\n" + "\n".join(rows)
p = os.path.join(ROOT, "DESIGN.md")
s = open(p).read()
a, b = "<!-- MATRIX-BEGIN -->", "<!-- MATRIX-END -->"
if a in s:
    s = s[:s.index(a) + len(a)] + "\n" + table + "\n" + s[s.index(b):]
    open(p, "w").write(s)
print(table[:1500])
