#!/usr/bin/env python3
"""Writes seeded/<id>/meta.json from agent_meta.json (the sub-agent's account), confirmation.txt (my confirmation in a scratch
worktree) and detection.txt (what my checks reported with the change applied)."""
import json, os, re, sys
ROOT = os.path.dirname(os.path.dirname(os.path.abspath(__file__)))
for d in sorted(os.listdir(os.path.join(ROOT, "seeded"))):
    p = os.path.join(ROOT, "seeded", d)
    am = os.path.join(p, "agent_meta.json")
    if not os.path.exists(am):
        continue
    a = json.load(open(am))
    conf = open(os.path.join(p, "confirmation.txt")).read() if os.path.exists(os.path.join(p, "confirmation.txt")) else ""
    det = open(os.path.join(p, "detection.txt")).read() if os.path.exists(os.path.join(p, "detection.txt")) else ""
    detections = []
    for m in re.finditer(r"=== (C\d+) with \S+\n(.*?)exit=(\d+)", det, re.S):
        prop, body, code = m.group(1), m.group(2), int(m.group(3))
        viol = [l.strip() for l in body.splitlines() if l.startswith("VIOLATION") or l.startswith("  [")]
        detections.append({"check": f"./check {prop} quick", "exit": code, "caught": code == 1, "report": viol[:2]})
    meta = {
        "id": d,
        "breaks_property": a.get("property"),
        "what_changed": a.get("summary"),
        "files": a.get("files"),
        "needs_to_manifest": a.get("needs_to_manifest"),
        "origin": "written by a fresh sub-agent that saw only the property text and its own scratch worktree of /repo (nothing from /verif)",
        "confirmed_by_me": {
            "how": "tools/confirm_mutant.sh: scratch worktree of /repo HEAD, patch applied, go build ./..., existing tests of the touched packages and of runtime/interpreter/bbq/stdlib/sema with the change, demonstration with and without the change",
            "builds": "BUILD-OK" in conf,
            "existing_tests_pass_with_change": "EXISTING-TESTS exit=0" in conf,
            "demo_fails_with_change": "DEMO-WITH-CHANGE exit=1" in conf,
            "demo_passes_without_change": "DEMO-WITHOUT-CHANGE exit=0" in conf,
            "repo_head": (re.search(r"repo HEAD: (\w+)", conf) or [None, None])[1],
        },
        "what_i_ran": "git -C /repo apply patch.diff; ./check <property> quick (VERIF_SEED=1); git -C /repo checkout -- .   (tools/try_mutant.sh)",
        "detections": detections,
        "caught_by": [x["check"] for x in detections if x["caught"]],
    }
    json.dump(meta, open(os.path.join(p, "meta.json"), "w"), indent=1)
    print(d, "caught_by", meta["caught_by"], "confirmed", all([meta["confirmed_by_me"][k] for k in ("builds","existing_tests_pass_with_change","demo_fails_with_change","demo_passes_without_change")]))
