#!/bin/bash
# usage: tools/process_mutant.sh <name> <prop> [<prop>...] — confirm a delivered seeded change (scratch worktree), then run the quick checks against it.
NAME="$1"; shift
SRC=/tmp/seedout/$NAME
cd /verif
git -C /repo worktree remove --force /tmp/wt/$NAME 2>/dev/null
[ -f "$SRC/confirmation.txt" ] && grep -q DONE "$SRC/confirmation.txt" || tools/confirm_mutant.sh "$SRC" "$NAME"
tools/try_mutant.sh "$SRC/patch.diff" "$@" > "$SRC/try.log" 2>&1
echo "processed $NAME"; grep -E "^(BUILD|EXISTING|DEMO)" "$SRC/confirmation.txt"; grep -E "^===|VIOLATION|exit=" "$SRC/try.log" | cut -c1-300
