#!/bin/bash
# usage: tools/process_mutant_wt.sh <name> <prop> [<prop>...] — confirm a delivered seeded change, then run the quick checks against it, all in scratch worktrees.
NAME="$1"; shift
SRC=/tmp/seedout/$NAME
cd /verif
git -C /repo worktree remove --force /tmp/wt/$NAME 2>/dev/null
[ -f "$SRC/confirmation.txt" ] && grep -q DONE "$SRC/confirmation.txt" || tools/confirm_mutant.sh "$SRC" "$NAME"
tools/try_mutant_wt.sh "$SRC/patch.diff" "$@" > "$SRC/try.log" 2>&1
echo "##### $NAME"; grep -E "^(BUILD|EXISTING|DEMO)" "$SRC/confirmation.txt" | tr '\n' ' '; echo; grep -E "^===|VIOLATION|exit=|HARNESS" "$SRC/try.log" | cut -c1-200
