#!/bin/bash
# usage: tools/run_seeded_matrix.sh [<id>...]  — for every kept seeded change (default: all under seeded/): apply it to /repo, run the quick
# check of the property it breaks (plus any listed in seeded/<id>/also_checks), undo it, and record the outcome in seeded/<id>/detection.txt.
cd "$(dirname "$0")/.."
IDS="${@:-$(ls seeded)}"
for id in $IDS; do
  d=seeded/$id
  patch=$d/patch.diff; [ -f $d/patch_ported.diff ] && patch=$d/patch_ported.diff
  prop=$(python3 -c "import json;print(json.load(open('$d/agent_meta.json'))['property'])")
  also=$(cat $d/also_checks 2>/dev/null)
  tools/try_mutant.sh $patch $prop $also > $d/detection.txt 2>&1
  echo "$id: $(grep -c '^VIOLATION' $d/detection.txt) violation lines; $(grep '^exit=' $d/detection.txt | tr '\n' ' ')"
done
python3 tools/mkmeta.py
