#!/bin/bash
# usage: tools/run_seeded_matrix.sh [<id>...]  — for every kept seeded change (default: all under seeded/): (re)confirm it in a scratch worktree of
# /repo HEAD if no confirmation is recorded, then run the quick check of the property it breaks (plus any listed in seeded/<id>/also_checks)
# against a scratch worktree with the change applied, and record the outcome in seeded/<id>/detection.txt. /repo itself is never touched.
cd "$(dirname "$0")/.."
IDS="${@:-$(ls seeded)}"
for id in $IDS; do
  d=seeded/$id
  patch=$d/patch.diff; [ -f $d/patch_ported.diff ] && patch=$d/patch_ported.diff
  prop=$(python3 -c "import json;print(json.load(open('$d/agent_meta.json'))['property'])")
  also=$(cat $d/also_checks 2>/dev/null)
  if ! grep -q "^DONE" $d/confirmation.txt 2>/dev/null; then
    mkdir -p /tmp/seedout/reconf_$id; cp $patch /tmp/seedout/reconf_$id/patch.diff; cp $d/agent_meta.json $d/*_test.go /tmp/seedout/reconf_$id/ 2>/dev/null
    tools/confirm_mutant.sh /tmp/seedout/reconf_$id $id; cp /tmp/seedout/reconf_$id/confirmation.txt $d/confirmation.txt
  fi
  mkdir -p /tmp/seedout/mx_$id; cp $patch /tmp/seedout/mx_$id/patch.diff
  tools/try_mutant_wt.sh /tmp/seedout/mx_$id/patch.diff $prop $also > $d/detection.txt 2>&1
  sed -i "s/with mx_$id/with $id/" $d/detection.txt
  echo "$id: $(grep '^exit=' $d/detection.txt | tr '\n' ' ') $(grep -E '^(BUILD|EXISTING|DEMO)' $d/confirmation.txt | sed 's/ (with.*//' | tr '\n' ' ')"
  rm -rf /tmp/seedout/mx_$id /tmp/seedout/out_mx_$id
done
python3 tools/mkmeta.py
