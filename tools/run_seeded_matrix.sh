#!/bin/bash
# usage: tools/run_seeded_matrix.sh [<id>...]  — for every kept seeded change (default: all under seeded/): (re)confirm it in a scratch worktree of
# /repo HEAD if no confirmation is recorded, then run the quick check of the property it breaks (plus any listed in seeded/<id>/also_checks)
# against ONE scratch worktree (/tmp/wt/mx, so that the Go build cache is reused) with the change applied, undo it, and record the outcome in
# seeded/<id>/detection.txt. /repo itself and /verif/evidence are never touched (VERIF_REPO / VERIF_OUT).
cd "$(dirname "$0")/.."
IDS="${@:-$(ls seeded)}"
WT=/tmp/wt/mx
git -C /repo worktree remove --force $WT 2>/dev/null
git -C /repo worktree add -q --detach $WT HEAD || exit 2
trap 'git -C /repo worktree remove --force $WT 2>/dev/null' EXIT
for id in $IDS; do
  d=seeded/$id
  patch=$d/patch.diff; [ -f $d/patch_ported.diff ] && patch=$d/patch_ported.diff
  prop=$(python3 -c "import json;print(json.load(open('$d/agent_meta.json'))['property'])")
  also=$(cat $d/also_checks 2>/dev/null)
  if ! grep -q "^DONE" $d/confirmation.txt 2>/dev/null; then
    mkdir -p /tmp/seedout/reconf_$id; cp $patch /tmp/seedout/reconf_$id/patch.diff; cp $d/agent_meta.json $d/*_test.go /tmp/seedout/reconf_$id/ 2>/dev/null
    tools/confirm_mutant.sh /tmp/seedout/reconf_$id $id; cp /tmp/seedout/reconf_$id/confirmation.txt $d/confirmation.txt
  fi
  git -C $WT checkout -q -- . ; git -C $WT clean -qfd
  if ! git -C $WT apply "$PWD/$patch"; then echo "$id: patch does not apply to HEAD" | tee $d/detection.txt; continue; fi
  OUT=/tmp/seedout/out_mx_$id; mkdir -p $OUT
  : > $d/detection.txt
  for p in $prop $also; do
    echo "=== $p with $id" >> $d/detection.txt
    VERIF_REPO=$WT VERIF_OUT=$OUT timeout 1500 ./check "$p" quick 2>&1 | grep -E "VIOLATION|KNOWN-FINDING|HARNESS|evaluations|^  \[" | cut -c1-600 | head -12 >> $d/detection.txt
    echo "exit=${PIPESTATUS[0]}" >> $d/detection.txt
  done
  git -C $WT checkout -q -- . ; git -C $WT clean -qfd
  echo "$id: $(grep '^exit=' $d/detection.txt | tr '\n' ' ') $(grep -E '^(BUILD|EXISTING|DEMO)' $d/confirmation.txt | sed 's/ (with.*//' | tr '\n' ' ')"
  rm -rf $OUT
done
python3 tools/mkmeta.py
