#!/bin/bash
# usage: tools/selftest.sh [seeds] [first]  — determinism self-test: the same plans in 6 fresh processes (GOMAXPROCS 1/4/16, CPU affinity 1/4/16 cores)
# and twice inside each process; all outputs must be identical. Exit 0 = deterministic.
cd "$(dirname "$0")/.."
N=${1:-30}; F=${2:-1}
./build.sh || exit 2
D=$(mktemp -d /var/tmp/selftest.XXXXXX)
GOMAXPROCS=1 bin/sim selftest -seeds $N -first $F > $D/p1 &
GOMAXPROCS=4 bin/sim selftest -seeds $N -first $F > $D/p2 &
GOMAXPROCS=16 bin/sim selftest -seeds $N -first $F > $D/p3 &
taskset -c 0 bin/sim selftest -seeds $N -first $F > $D/p4 &
taskset -c 4-7 bin/sim selftest -seeds $N -first $F > $D/p5 &
taskset -c 0-15 bin/sim selftest -seeds $N -first $F > $D/p6 &
wait
rc=0
for p in p2 p3 p4 p5 p6; do
  if ! diff -q $D/p1 $D/$p > /dev/null; then echo "process $p differs from p1:"; diff $D/p1 $D/$p | head -6; rc=1; fi
done
grep -c . $D/p1 | sed 's/^/plans compared: /'
if grep -q NOT-DETERMINISTIC $D/p*; then grep NOT-DETERMINISTIC $D/p* | head -5; rc=1; fi
rm -rf $D
[ $rc = 0 ] && echo "SELFTEST OK: $N plans x 6 processes x 2 in-process runs identical"
exit $rc
