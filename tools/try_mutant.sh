#!/bin/bash
# usage: tools/try_mutant.sh <patch.diff> <prop> [<prop>...]   — applies a seeded change to /repo, runs the quick checks, reverts it.
set -u
PATCH="$1"; shift
cd /verif
if ! git -C /repo diff --quiet; then echo "refusing: /repo has uncommitted changes"; exit 2; fi
git -C /repo apply "$PATCH" || { echo "patch does not apply"; exit 2; }
# bin/sim and bin/sim.race are rebuilt from the restored tree afterwards (otherwise the binaries of the seeded change stay behind).
# the checks rewrite evidence/<id>.json on every run: keep the evidence of the unchanged tree, not of the seeded change
EVBAK=$(mktemp -d /var/tmp/verif-evidence.XXXXXX); cp -a evidence/. "$EVBAK"/
trap 'git -C /repo apply -R "$PATCH"; git -C /repo status --short | head -3; rm -rf evidence; mkdir evidence; cp -a "$EVBAK"/. evidence/; rm -rf "$EVBAK"; ./build.sh race >/dev/null 2>&1 || echo "rebuild of bin/ after the revert failed"' EXIT
for p in "$@"; do
  echo "=== $p with $(basename $(dirname $PATCH))"
  timeout 1200 ./check "$p" quick 2>&1 | grep -E "VIOLATION|KNOWN-FINDING|HARNESS|evaluations|^  \[" | cut -c1-600 | head -12
  echo "exit=${PIPESTATUS[0]}"
done
