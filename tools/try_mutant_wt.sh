#!/bin/bash
# usage: tools/try_mutant_wt.sh <patch.diff> <prop> [<prop>...] — like try_mutant.sh, but without touching /repo: the seeded change is applied
# to a scratch worktree of /repo HEAD and the checks are built against it (VERIF_REPO); evidence and replays go to a scratch directory.
set -u
PATCH="$1"; shift
cd /verif
NAME=$(basename $(dirname $PATCH))
WT=/tmp/wt/try_$NAME; OUT=/tmp/seedout/out_$NAME
git -C /repo worktree remove --force $WT 2>/dev/null
git -C /repo worktree add -q --detach $WT HEAD || exit 2
git -C $WT apply "$PATCH" || { echo "patch does not apply"; git -C /repo worktree remove --force $WT; exit 2; }
mkdir -p $OUT
H=$(echo -n "$WT" | md5sum | cut -c1-10)
trap 'git -C /repo worktree remove --force $WT 2>/dev/null; rm -rf /verif/bin.alt/$H' EXIT
for p in "$@"; do
  echo "=== $p with $NAME"
  VERIF_REPO=$WT VERIF_OUT=$OUT timeout 1500 ./check "$p" quick 2>&1 | grep -E "VIOLATION|KNOWN-FINDING|HARNESS|evaluations|^  \[" | cut -c1-600 | head -12
  echo "exit=${PIPESTATUS[0]}"
done
