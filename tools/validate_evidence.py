#!/usr/bin/env python3
"""Validates every evidence/<id>.json of a claimed property against the evidence schema and against the manifest
(level matches the claim, property id matches, no violations recorded). Run before committing evidence:
    python3-vt tools/validate_evidence.py        (python3-vt = the tooling venv that has jsonschema)"""
import json, os, sys
import jsonschema
ROOT = os.path.dirname(os.path.dirname(os.path.abspath(__file__)))
schema = json.load(open("/root/.vp/EVIDENCE.schema.json"))
manifest = json.load(open(os.path.join(ROOT, "MANIFEST.json")))
bad = 0
for c in manifest["checks"]:
    pid = c["property_id"]
    path = os.path.join(ROOT, "evidence", pid + ".json")
    try:
        ev = json.load(open(path))
        jsonschema.validate(ev, schema)
        assert ev["property_id"] == pid, "property_id mismatch"
        assert ev["level"] == c["level_claimed"]["category"], f"level {ev['level']} != claimed {c['level_claimed']['category']}"
        assert ev.get("violations", 0) == 0, f"records {ev.get('violations')} violations (evidence of a run on a broken tree?)"
        cov = ev["coverage"]
        print(f"ok   {pid}: {cov['evaluations']} evaluations, {cov['distinct_nontrivial']} distinct non-trivial, seed {ev['seed']}, {ev['wall_s']:.0f}s")
    except Exception as e:  # noqa
        bad += 1
        print(f"BAD  {pid}: {str(e).splitlines()[0]}")
sys.exit(1 if bad else 0)
